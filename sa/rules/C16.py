"""C16 - result objects report what the sampler produced.

Decided: parameter columns in parameter_names order, one weight vector in every summary
statistic, the warm-up slice / chain-major flattening of BOLFI samples, symmetry of the
pickling state, the save dispatch, the textbook form of split R-hat and ESS over the chain
statistics (exact normal forms).  Not decided: their invariances for all inputs, the FFT
autocovariance, JSON / CSV round-trip values.
"""

import ast

from .. import AnalysisError, AnchorMissing
from ..cfg import cfg_of
from ..model import own_nodes
from ..values import pattern, match, match_any, find, contains, show, subterms
from .base import obligation, src, callee_name, if_branches, split_if
from .C04 import pattern_term, returns, enclosing_loop, _inside

S = 'elfi.methods.results:Sample'
BS = 'elfi.methods.results:BolfiSample'


@obligation('C16-a', 'T3', 'parameter columns are exposed in parameter_names order', floor=3,
            necessary='another order mislabels the columns of samples_array')
def c16_a(ctx):
    s = ctx.cls(S)
    init = ctx.own_method(s, '__init__')
    ex = ctx.ex(init)
    cre = [x for (x, t, k) in ctx.stores(init, 'self.samples') if isinstance(x, ast.Assign)]
    ok = bool(cre) and match_any(ex.term(cre[0].value), ('OrderedDict()', 'dict()')) is not None \
        or (bool(cre) and ex.term(cre[0].value) == ('dict', ()))
    ctx.check(ok, init, 'ordered container', 'samples = OrderedDict()',
              'samples is not an insertion-ordered mapping', fn=init,
              node=cre[0] if cre else init.node)
    fills = [x for (x, t, k) in ctx.stores(init, 'self.samples[_]') if isinstance(x, ast.Assign)]
    ok = False
    for x in fills:
        lo = enclosing_loop(x)
        if isinstance(lo, ast.For) and match(ex.term(lo.iter, cfg_of(init).by_stmt[id(lo)]),
                                             pattern('self.parameter_names')) is not None:
            k = ex.term(x.targets[0].slice)
            v = ex.term(x.value)
            if k[0] == 'elem' and v == ('sub', pattern_term('self.outputs'), k):
                ok = True
    ctx.check(ok, init, 'filled in parameter order',
              'for n in parameter_names: samples[n] = outputs[n]',
              'samples is not filled with outputs[n] by iterating parameter_names', fn=init,
              node=fills[0] if fills else init.node)
    sup = ctx.calls(init, 'super(*_).__init__(*_)')
    ok = bool(sup) and bool(fills) and ctx.must_precede(init, sup, fills[0])
    ctx.check(ok, init, 'outputs stored first', 'base __init__ before the samples are filled',
              '', fn=init, node=sup[0] if sup else init.node)
    sa = s.methods.get('samples_array')
    if sa is None:
        raise AnchorMissing('samples_array')
    ctx.touch(sa)
    rr = returns(sa)
    ok = len(rr) == 1 and match_any(
        ctx.term(sa, rr[0].value),
        ('np.column_stack(tuple(self.samples.values()))',
         'np.column_stack(list(self.samples.values()))',
         'np.column_stack([self.samples[_n] for _n in self.parameter_names])')) is not None
    ctx.check(ok, sa, 'columns stacked in container order', 'column_stack(samples.values())',
              'samples_array does not stack the sample columns in their stored order', fn=sa,
              node=rr[0] if rr else sa.node)
    base = ctx.cls('elfi.methods.results:ParameterInferenceResult')
    bi = ctx.own_method(base, '__init__')
    st = [x for (x, t, k) in ctx.stores(bi, 'self.outputs') if isinstance(x, ast.Assign)]
    ok = bool(st) and match_any(ctx.term(bi, st[0].value), ('outputs.copy()', 'dict(outputs)')) \
        is not None
    ctx.check(ok, bi, 'outputs dict owned by the result', 'outputs.copy()',
              'the result shares the caller\'s outputs dict', fn=bi, node=st[0] if st else bi.node)
    ns = s.methods.get('n_samples')
    if ns is not None:
        ctx.touch(ns)
        rr = returns(ns)
        ok = len(rr) == 1 and match(ctx.term(ns, rr[0].value),
                                    pattern('len(self.outputs[self.parameter_names[0]])')) \
            is not None
        ctx.check(ok, ns, 'n_samples', 'len(outputs[first parameter])', 'n_samples is not the '
                  'length of a parameter column', fn=ns, node=rr[0] if rr else ns.node)


@obligation('C16-b', 'T7', 'every summary statistic uses the stored samples and the one weight '
            'vector', floor=4,
            necessary='a statistic computed without (or with other) weights disagrees with the '
                      'others')
def c16_b(ctx):
    s = ctx.cls(S)
    n = 0
    for m in s.methods.values():
        ex = ctx.ex(m)
        calls = [c for c in ctx.calls(m) if callee_name(c) in ('average', 'weighted_sample_quantile')
                 and (match(ex.term(c.func), pattern('np.average')) is not None or
                      match(ex.term(c.func), pattern('weighted_sample_quantile')) is not None)]
        for c in calls:
            n += 1
            kws = dict((k.arg, ex.term(k.value)) for k in c.keywords)
            # np.average(a, axis, weights) and weighted_sample_quantile(x, alpha, weights):
            # `weights` is the third positional parameter of both
            wt = kws.get('weights')
            if wt is None and len(c.args) >= 3 and not any(isinstance(a, ast.Starred)
                                                           for a in c.args):
                wt = ex.term(c.args[2])
            ok = wt == pattern_term('self.weights')
            ctx.check(ok, m, 'weights passed', src(c)[:60],
                      '`{}` does not use weights=self.weights'.format(src(c)[:70]), fn=m, node=c)
            x = ex.term(c.args[0]) if c.args else kws.get('x')
            ok = x is not None and (contains(x, 'self.samples.items()') or
                                    contains(x, 'self.samples[_]') or
                                    contains(x, 'self.samples.values()'))
            ctx.check(ok, m, 'statistic of the stored samples', 'iterates self.samples',
                      '`{}` is not computed from self.samples'.format(src(c)[:70]), fn=m, node=c)
    if n < 4:
        ctx.undecided('expected >= 4 weighted statistics, found {}'.format(n))
    # weights and samples are plain attributes that are re-assigned after construction (SMC sets
    # sample.weights itself): a statistic of them must be recomputed on every access
    caching = ('cached_property', 'lru_cache', 'cache')
    for m in s.methods.values():
        reads = any(isinstance(x, ast.Attribute) and isinstance(x.value, ast.Name) and
                    x.value.id == 'self' and x.attr in ('weights', 'samples', 'outputs')
                    for x in ast.walk(m.node))
        if not reads:
            continue
        decs = []
        for d in m.node.decorator_list:
            f = d.func if isinstance(d, ast.Call) else d
            decs.append(f.attr if isinstance(f, ast.Attribute) else getattr(f, 'id', ''))
        bad = [d for d in decs if d in caching]
        ctx.check(not bad, m, 'statistic recomputed on every access', 'plain property / method',
                  '{} is cached ({}): after the weights or samples are re-assigned it keeps '
                  'reporting the old value while the other statistics use the new one'.format(
                      m.name, ', '.join(bad)), fn=m, node=m.node)
    # a method that takes the level alpha hands it on
    for m in s.methods.values():
        if 'alpha' not in m.all_params:
            continue
        ex = ctx.ex(m)
        for c in ctx.calls(m, 'weighted_sample_quantile(*_)'):
            kws = dict((k.arg, ex.term(k.value)) for k in c.keywords)
            a = kws.get('alpha') if 'alpha' in kws else (
                ex.term(c.args[1]) if len(c.args) > 1 else None)
            ctx.check(a == ('param', 'alpha'), m, 'requested level passed on', 'alpha=alpha',
                      '{} does not pass its alpha to the quantile (the default 0.5 is used)'
                      .format(m.name), fn=m, node=c)
    ci = s.methods.get('sample_means_and_95CIs')
    if ci is not None:
        ex = ctx.ex(ci)
        qs = [c for c in ctx.calls(ci, 'weighted_sample_quantile(*_)')]
        al = sorted(ex.term(k.value)[1] for c in qs for k in c.keywords
                    if k.arg == 'alpha' and ex.term(k.value)[0] == 'const')
        ctx.check(al == [0.025, 0.975], ci, '95% interval', 'alpha = 0.025 and 0.975',
                  'interval quantiles are {}'.format(al), fn=ci, node=qs[0] if qs else ci.node)
    w = ctx.own_method(s, '__init__')
    st = [x for (x, t, k) in ctx.stores(w, 'self.weights') if isinstance(x, ast.Assign)]
    ok = bool(st) and ctx.term(w, st[0].value) == ('param', 'weights')
    ctx.check(ok, w, 'weights stored as given', 'self.weights = weights', '', fn=w,
              node=st[0] if st else w.node)


@obligation('C16-c', 'T5 T8', 'a BOLFI sample is every chain minus its warm-up prefix, chain by '
            'chain', floor=4,
            necessary='a slice on another axis removes chains or parameters; column-major '
                      'flattening interleaves the chains')
def c16_c(ctx):
    bs = ctx.cls(BS)
    init = ctx.own_method(bs, '__init__')
    ex = ctx.ex(init)
    sup = ctx.calls(init, 'super(*_).__init__(*_)')
    if not sup:
        raise AnchorMissing('BolfiSample does not call the base constructor')
    kws = dict((k.arg, ex.term(k.value)) for k in sup[0].keywords)
    out = kws.get('outputs')
    m = match(out, pattern('dict(zip(parameter_names, _c.T))')) if out is not None else None
    if m is None and out is not None:
        m = match(out, pattern('dict(zip(parameter_names, np.transpose(_c)))'))
    ctx.check(m is not None, init, 'names zipped with transposed columns',
              'dict(zip(parameter_names, concatenated.T))',
              'outputs are {}'.format(show(out)[:100] if out else None), fn=init, node=sup[0])
    if m is None:
        return
    c = m['c']
    mr = match(c, pattern('_w.reshape((-1,) + _s[2:])'))
    ok = mr is not None and c[0] == 'call' and not any(k == 'order' for (k, v) in c[3])
    ctx.check(ok, init, 'chain-major flattening', 'reshape((-1,) + shape[2:]) in C order',
              'the chains are flattened as {}'.format(show(c)[:100]), fn=init, node=sup[0])
    if mr is not None:
        w = mr['w']
        mw = match(w, pattern('_ch[:, warmup:, :]'))
        ctx.check(mw is not None, init, 'warm-up removed along the sample axis',
                  'chains[:, warmup:, :]',
                  'the warm-up slice is {}'.format(show(w)[:80]), fn=init, node=sup[0])
        if mw is not None:
            ch = mw['ch']
            ok = match(ch, pattern('chains.copy()')) is not None
            ctx.check(ok, init, 'chains copied', 'chains = chains.copy()',
                      'the sample keeps a reference to the caller\'s chain array', fn=init,
                      node=sup[0])
            ok = mr['s'] == ('attr', ch, 'shape')
            ctx.check(ok, init, 'trailing shape of the same array', 'shape = chains.shape',
                      'the trailing shape is taken from another array', fn=init, node=sup[0])
    ok = kws.get('warmup') == ('param', 'warmup') and kws.get('parameter_names') == \
        ('param', 'parameter_names')
    ctx.check(ok, init, 'meta data passed on', 'warmup and parameter_names forwarded',
              'warmup / parameter_names are not forwarded to the base class', fn=init,
              node=sup[0])


@obligation('C16-d', 'T8', '__getstate__ and __setstate__ use the same tuple order', floor=1,
            necessary='a swapped order restores meta as __dict__ and vice versa')
def c16_d(ctx):
    s = ctx.cls(S)
    gs = ctx.own_method(s, '__getstate__')
    ss = ctx.own_method(s, '__setstate__')
    rr = returns(gs)
    gt = ctx.term(gs, rr[0].value) if rr else None
    st = [n for n in own_nodes(ss.node) if isinstance(n, ast.Assign) and
          isinstance(n.targets[0], ast.Tuple)]
    if gt is None or gt[0] != 'tuple' or not st:
        ctx.undecided('state is not a tuple on both sides')
    tg = [ctx.ex(ss).term(e) for e in st[0].targets[0].elts]
    ok = list(gt[1]) == tg and ctx.term(ss, st[0].value) == ('param', ss.params[1])
    ctx.check(ok, gs, 'state tuple order', '{} on both sides'.format([show(x) for x in gt[1]]),
              '__getstate__ returns {} but __setstate__ unpacks into {}'.format(
                  [show(x) for x in gt[1]], [show(x) for x in tg]), fn=gs, node=rr[0])


@obligation('C16-e', 'T8', 'save handles csv, json and pkl; csv header and rows come from the '
            'same mapping', floor=3,
            necessary='a header from another mapping mislabels the saved columns')
def c16_e(ctx):
    s = ctx.cls(S)
    sv = ctx.own_method(s, 'save')
    ex = ctx.ex(sv)
    kinds = set()
    from .base import negate_term
    for n in own_nodes(sv.node):
        if isinstance(n, ast.If):
            t0, _b, _o = split_if(ex, n)
            for cand in (t0, negate_term(t0)):
                m = match(cand, pattern('_k == _c')) if cand is not None else None
                if m is not None:
                    for side in (m['c'], m['k']):
                        if side[0] == 'const' and isinstance(side[1], str):
                            kinds.add(side[1])
    ctx.check(kinds >= {'csv', 'json', 'pkl'}, sv, 'three kinds handled', sorted(kinds),
              'save handles {} (expected csv, json, pkl)'.format(sorted(kinds)), fn=sv,
              node=sv.node)
    hdr = ctx.calls(sv, name='writerow')
    rows = ctx.calls(sv, name='writerows')
    ok = bool(hdr) and bool(rows) and \
        match(ex.term(hdr[0].args[0]), pattern('self.samples.keys()')) is not None and \
        contains(ex.term(rows[0].args[0]), 'self.samples.values()') and \
        ctx.must_precede(sv, hdr, rows[0])
    ctx.check(ok, sv, 'csv header and rows from one mapping',
              'writerow(samples.keys()); writerows(zip(*samples.values()))',
              'csv header and rows are not taken from self.samples in this order', fn=sv,
              node=hdr[0] if hdr else sv.node)
    pk = ctx.calls(sv, 'pickle.dump(self, *_)')
    ok = bool(pk) and any(pol and contains(t, "_ == 'pkl'") for (t, pol, _) in ctx.guards(sv, pk[0]))
    ctx.check(ok, sv, 'pickle saves the whole object', 'pickle.dump(self, f, ...)',
              'the pkl branch does not pickle the sample object', fn=sv,
              node=pk[0] if pk else sv.node)
    ext = [n for n in own_nodes(sv.node) if isinstance(n, ast.Assign) and
           match(ex.term(n.value), pattern('os.path.splitext(fname)[1][1:]')) is not None]
    ctx.check(bool(ext), sv, 'kind from the file extension', 'splitext(fname)[1][1:]',
              'the kind is not derived from the file extension', fn=sv,
              node=ext[0] if ext else sv.node)


# The intervals a sample reports are computed by weighted_sample_quantile: its partition
# structure (one permutation for values and weights) is part of this property too (= C13-a).
from . import C13 as _C13   # noqa: E402

obligation('C16-f', 'T6 T7 T5', 'the quantile helper behind the reported intervals permutes values '
           'and weights together (shared with C13-a)', floor=6,
           necessary='weights accumulated in stored order give intervals that depend on the '
                     'storage order of the sample')(_C13.c13_a)


def _chain_atoms(C):
    """Recognisers for the chain statistics over the (possibly split) chain matrix term C."""
    from ..values import pattern as P

    def kwd(t):
        return dict(t[3]) if t[0] == 'call' else {}

    def is_mean_axis1(t):
        return t[0] == 'call' and t[1] == ('global', 'numpy.mean') and t[2] and t[2][0] == C and \
            (kwd(t).get('axis') == ('const', 1) or (len(t[2]) > 1 and t[2][1] == ('const', 1)))

    def is_var_axis1(t):
        return t[0] == 'call' and t[1] == ('global', 'numpy.var') and t[2] and t[2][0] == C and \
            kwd(t).get('axis') == ('const', 1) and kwd(t).get('ddof') == ('const', 1)

    def W(t):     # mean over chains of the within-chain sample variances
        return t[0] == 'call' and t[1] == ('global', 'numpy.mean') and len(t[2]) == 1 and \
            is_var_axis1(t[2][0])

    def b(t):     # sample variance of the chain means
        return t[0] == 'call' and t[1] == ('global', 'numpy.var') and len(t[2]) == 1 and \
            is_mean_axis1(t[2][0]) and kwd(t).get('ddof') == ('const', 1)
    return W, b


@obligation('C16-g', 'T14 T5', 'split R-hat and ESS have their textbook form over the chain '
            'statistics', floor=5,
            necessary='another combination of within / between variance (or a split that mixes '
                      'chains) is a different diagnostic')
def c16_g(ctx):
    from .. import symdiff as sd
    from ..ratfun import Rat, Unsupported
    ctx.fact('BDA3 / Stan 2.14: W = mean of within-chain variances (ddof=1), B = n var(chain '
             'means, ddof=1), var+ = ((n-1) W + B) / n, R-hat = sqrt(var+ / W) on chains split in '
             'halves; rho_t = 1 - (W - mean_t autocov) / var+, ESS = m n / (1 + 2 sum rho_t)')
    mm = ctx.repo.module('elfi.methods.mcmc')
    rh = [f for f in mm.functions.values() if f.params == ['chains'] and
          any(contains(ctx.ex(f).term(r.value), 'np.sqrt(_)') for r in returns(f))]
    es = [f for f in mm.functions.values() if f.params == ['chains'] and
          ctx.calls(f, 'np.fft.rfft(*_)')]
    if len(rh) != 1 or len(es) != 1:
        raise AnchorMissing('R-hat / ESS functions')
    rh, es = rh[0], es[0]
    # ---- R-hat
    ex = ctx.ex(rh)
    base = pattern_term('np.atleast_2d(chains)')
    rr = returns(rh)
    T = ex.term(rr[0].value)
    # the split chain matrix: reshape of the first 2*(N//2) columns to (2M, N//2)
    half = ('binop', '//', ('item', ('attr', base, 'shape'), 1), ('const', 2))
    twice = ('binop', '*', ('item', ('attr', base, 'shape'), 0), ('const', 2))
    splits = [s_ for s_ in subterms(T) if s_[0] == 'call' and s_[1][0] == 'attr' and
              s_[1][2] == 'reshape']
    ok = False
    C = None
    for s_ in splits:
        shape = s_[2][0] if len(s_[2]) == 1 else ('tuple', tuple(s_[2]))
        src_ = s_[1][1]
        good_shape = shape == ('tuple', (twice, half))
        m = match(src_, pattern('_c[:, :_k]'))
        good_src = m is not None and m['c'] == base and \
            m['k'] in (('binop', '*', ('const', 2), half), ('binop', '*', half, ('const', 2)))
        order_c = not dict(s_[3]).get('order') or dict(s_[3]).get('order') == ('const', 'C')
        if good_shape and good_src and order_c:
            ok = True
            C = s_
    ctx.check(ok, rh, 'chains split in the middle, row-major',
              'chains[:, :2*(N//2)].reshape((2M, N//2))',
              'the chains are not split into consecutive halves (2M rows of N//2 samples, '
              'row-major)', fn=rh, node=rr[0])
    if C is None:
        return
    Wp, bp = _chain_atoms(C)
    alg = sd.Algebra()

    def leaf(t, C=C, Wp=Wp, bp=bp, n_t=half):
        if t == n_t:
            return Rat.sym('n')
        if Wp(t):
            return Rat.sym('W')
        if bp(t):
            return Rat.sym('b')
        return None
    n, W, b = Rat.sym('n'), Rat.sym('W'), Rat.sym('b')
    hasW = any(Wp(s_) for s_ in subterms(T))
    hasb = any(bp(s_) for s_ in subterms(T))
    ctx.check(hasW and hasb, rh, 'W and var(means) are sample variances (ddof=1) along the samples',
              'np.var(chains, ddof=1, axis=1), np.var(means, ddof=1)',
              'R-hat does not use the mean of the ddof=1 within-chain variances and the ddof=1 '
              'variance of the chain means (axis=1 = along the samples)', fn=rh, node=rr[0])
    if not (hasW and hasb):
        return
    try:
        got = sd.convert(T, alg, leaf)
        want = alg.sqrt((((n - Rat.const(1)) * W + n * b) / n) / W)
        okr = alg.same(got, want)
    except Unsupported as e:
        ctx.undecided('R-hat outside the fragment: {}'.format(e))
    ctx.check(okr, rh, 'R-hat = sqrt(((n-1) W + B) / (n W)), B = n var(means)',
              'with W and var(means) taken with ddof=1 along the samples',
              'the statistic returned is not sqrt(var+ / W) with var+ = ((n-1) W + n var(chain '
              'means)) / n', fn=rh, node=rr[0])
    # ---- ESS
    ex = ctx.ex(es)
    Wp, bp = _chain_atoms(base)
    n_t = ('item', ('attr', base, 'shape'), 1)
    m_t = ('item', ('attr', base, 'shape'), 0)
    alg = sd.Algebra()

    def leaf2(t):
        if t == n_t:
            return Rat.sym('n')
        if t == m_t:
            return Rat.sym('m')
        if Wp(t):
            return Rat.sym('W')
        if bp(t):
            return Rat.sym('b')
        if t[0] == 'call' and t[1] == ('global', 'numpy.mean') and len(t[2]) == 1 and \
                t[2][0][0] == 'sub' and not Wp(t) and not bp(t):
            return Rat.sym('A')          # mean over chains of the lag-t autocovariance
        if t[0] == 'ifexp':
            return None
        if t[0] in ('attr', 'call', 'item') and not (
                t[0] == 'call' and t[1][0] == 'global' and
                t[1][1] in ('numpy.sqrt', 'numpy.exp', 'numpy.log', 'numpy.square')):
            # a quantity foreign to the textbook formula: an opaque symbol (the identity then
            # fails unless it cancels)
            return Rat.sym('?' + show(t)[:40])
        return None
    temps = [s_ for s_ in own_nodes(es.node) if isinstance(s_, ast.Assign) and
             isinstance(s_.targets[0], ast.Name) and enclosing_loop(s_) is not None and
             contains(ex.term(s_.value), 'np.var(*_)')]
    if len(temps) != 1:
        ctx.undecided('autocorrelation estimate not identified')
    tt = ex.term(temps[0].value)
    # the between-chain term is 0 for a single chain: take the multi-chain alternative
    def multi(t):
        if isinstance(t, tuple) and t and t[0] == 'ifexp':
            return multi(t[3])
        if isinstance(t, tuple):
            return tuple(multi(c) if isinstance(c, tuple) else c for c in t)
        return t
    W, b, n, m_, A = (Rat.sym(x) for x in ('W', 'b', 'n', 'm', 'A'))
    hasW = any(Wp(s_) for s_ in subterms(tt))
    hasb = any(bp(s_) for s_ in subterms(tt))
    ctx.check(hasW and hasb, es, 'ESS: W and var(means) are sample variances (ddof=1) along the '
              'samples', '', 'the ESS does not use the ddof=1 within-chain variances / variance '
              'of the chain means', fn=es, node=temps[0])
    if not (hasW and hasb):
        return
    try:
        got = sd.convert(multi(tt), alg, leaf2)
        varp = ((n - Rat.const(1)) * W + n * b) / n
        okt = alg.same(got, Rat.const(1) - (W - A) / varp)
    except Unsupported as e:
        ctx.undecided('autocorrelation estimate outside the fragment: {}'.format(e))
    ctx.check(okt, es, 'rho_t = 1 - (W - mean autocov_t) / var+', '',
              'the autocorrelation estimate is not 1 - (W - autocov_t) / var+', fn=es,
              node=temps[0])
    # the lag-t autocovariance: unbiased estimate from the zero-padded FFT of the centred
    # chains, averaged over the chains at the running lag
    am = None
    for s_ in subterms(tt):
        am = am or match(s_, pattern('np.mean(_a[:, _l])'))
    oka = False
    if am is not None:
        ma = match(am['a'], pattern(
            'np.fft.irfft(np.abs(np.fft.rfft(_C - np.mean(_C, axis=1)[:, None], _P)) ** 2)'
            '[:, :_N].real / np.arange(_N, 0, -1)'))
        oka = ma is not None and ma['C'] == base and ma['N'] == n_t and match_any(
            ma['P'], ('int(2 ** np.ceil(1 + np.log2(_N)))', '2 * _N', '2 * _N - 1')) is not None \
            and match_any(ma['P'], ('int(2 ** np.ceil(1 + np.log2(_N)))', '2 * _N',
                                    '2 * _N - 1'))['N'] == n_t
    ctx.check(oka, es, 'autocovariance: zero-padded FFT of the centred chains / (n - lag)',
              'irfft(|rfft(chains - means, >= 2n)|^2)[:, :n].real / arange(n, 0, -1)',
              'the lag autocovariances are not the unbiased estimate from the zero-padded FFT '
              'of the chains centred at their own means', fn=es, node=temps[0])
    # the lag advances by one with every summed term
    lag_t = am['l'] if am is not None else None
    okg = False
    wl = [n_ for n_ in own_nodes(es.node) if isinstance(n_, ast.While)]
    if wl and lag_t is not None:
        incs = [s_ for s_ in ast.walk(wl[0]) if isinstance(s_, ast.AugAssign) and
                isinstance(s_.op, ast.Add) and ex.raw(s_.value) == ('const', 1) and
                isinstance(s_.target, ast.Name) and
                any(isinstance(x, ast.Name) and x.id == s_.target.id
                    for x in ast.walk(wl[0].test))] + \
               [s_ for s_ in ast.walk(wl[0]) if isinstance(s_, ast.Assign) and
                isinstance(s_.targets[0], ast.Name) and
                match(ex.raw(s_.value), pattern('{} + 1'.format(s_.targets[0].id))) is not None
                and any(isinstance(x, ast.Name) and x.id == s_.targets[0].id
                        for x in ast.walk(wl[0].test))]
        if len(incs) == 1:
            # every trip round the loop passes the increment (the other way out is the break)
            cfg = cfg_of(es)
            hdr = cfg.by_stmt[id(wl[0])]
            inc = ctx.node(es, incs[0])
            back = [p_ for (p_, lab) in hdr.pred if cfg.exists_path(hdr, p_) and p_ is not hdr
                    and cfg.in_loop(p_)]
            okg = bool(back) and all(
                not cfg.exists_path(_first_body(cfg, wl[0]), p_, avoiding=[inc, hdr]) or p_ is inc
                for p_ in back)
    ctx.check(okg, es, 'the lag advances by one per summed term', 'lag += 1 on every iteration',
              'the lag is not advanced on every trip round the loop: terms are repeated (or the '
              'loop does not end)', fn=es, node=wl[0] if wl else es.node)
    one_chain = [s_ for s_ in subterms(tt) if s_[0] == 'ifexp']
    okz = bool(one_chain) and all(
        match(s_[1], pattern('_m == 1')) is not None and s_[2] == ('const', 0)
        for s_ in one_chain)
    ctx.check(okz, es, 'no between-chain term for a single chain', 'B = 0 if n_chains == 1', '',
              fn=es, node=temps[0])
    rr = returns(es)
    T = ex.term(rr[0].value)
    acc = [s_ for s_ in subterms(T) if s_[0] == 'phi']
    m2 = match(T, pattern('_m * _n / (1.0 + 2.0 * _s)'))
    oke = m2 is not None and {m2['m'], m2['n']} == {m_t, n_t} and m2['s'][0] == 'phi'
    ctx.check(oke, es, 'ESS = m n / (1 + 2 sum rho_t)', '',
              'the effective sample size is not m n / (1 + 2 sum of autocorrelations)', fn=es,
              node=rr[0])
    # the sum runs over lags 1, 2, ... while the estimate is non-negative
    loops = [n_ for n_ in own_nodes(es.node) if isinstance(n_, ast.While)]
    okl = False
    if loops:
        lp = loops[0]
        adds = [s_ for s_ in ast.walk(lp) if isinstance(s_, ast.AugAssign) and
                isinstance(s_.op, ast.Add) and isinstance(s_.value, ast.Name) and
                s_.value.id == temps[0].targets[0].id]
        g_ok = bool(adds) and any(pol and t == ('cmp', '<=', ('const', 0), tt)
                                  for (t, pol, _) in ctx.guards(es, adds[0]))
        brk = any(isinstance(s_, ast.Break) for s_ in ast.walk(lp))
        lt = ex.raw(lp.test)
        lag_name = [x.id for x in ast.walk(lp.test) if isinstance(x, ast.Name)]
        run_ok = lt[0] == 'cmp' and lt[1] == '<' and ex.term(lp.test)[3] == n_t and \
            lt[2][0] == 'name'
        ctx.check(run_ok, es, 'lags run up to the chain length', 'while lag < n_samples',
                  'the lag loop does not run while lag < n_samples', fn=es, node=lp)
        lag0 = [s_ for s_ in own_nodes(es.node) if isinstance(s_, ast.Assign) and
                isinstance(s_.targets[0], ast.Name) and enclosing_loop(s_) is None and
                ex.raw(s_.value) == ('const', 1) and
                any(isinstance(x, ast.Name) and x.id == s_.targets[0].id
                    for x in ast.walk(lp.test))]
        okl = g_ok and brk and bool(lag0)
    ctx.check(okl, es, 'lags 1, 2, ... summed while the estimate is non-negative', '',
              'the autocorrelation sum does not start at lag 1 or does not stop at the first '
              'negative estimate', fn=es, node=loops[0] if loops else es.node)


def _first_body(cfg, loop):
    return cfg.by_stmt[id(loop.body[0])] if id(loop.body[0]) in cfg.by_stmt else \
        cfg.node_of(loop.body[0])


def _all_exits_return(fn):
    cfg = cfg_of(fn)
    return not [p for (p, lab) in cfg.ret.pred
                if not (p.kind == 'stmt' and isinstance(p.ast, ast.Return))]


@obligation('C16-h', 'T8 T7', 'the statistics accessors return a mapping from each parameter name '
            'to the statistic of that parameter\'s own column', floor=6,
            necessary='a statistic keyed by another name, or computed and not returned, is not '
                      'the mean / quantile of that parameter')
def c16_h(ctx):
    s = ctx.cls(S)
    for nm, stat in (('sample_means', 'np.average'), ('sample_quantiles',
                                                       'weighted_sample_quantile')):
        m = s.methods.get(nm)
        if m is None:
            raise AnchorMissing('Sample.' + nm)
        ctx.touch(m)
        ex = ctx.ex(m)
        rr = returns(m)
        ok = len(rr) == 1 and _all_exits_return(m)
        if ok:
            t = ex.term(rr[0].value)
            mm = match_any(t, ('OrderedDict(_c)', 'dict(_c)', 'collections.OrderedDict(_c)'))
            c = mm['c'] if mm is not None else (t if t[0] == 'comp' and t[1] == 'dict' else None)
            ok = c is not None and c[0] == 'comp'
            if ok:
                it = c[3][0][0]
                elt = c[2]
                if c[1] == 'dict':
                    k, v = elt[1] if elt[0] == 'tuple' else (None, None)
                else:
                    k, v = elt[1] if elt[0] == 'tuple' and len(elt[1]) == 2 else (None, None)
                ok = k is not None and match(it, pattern('self.samples.items()')) is not None \
                    and k[0] == 'item' and k[2] == 0 and v[0] == 'call' and \
                    match(v[1], pattern(stat)) is not None and bool(v[2]) and \
                    v[2][0] == ('item', k[1], 1) and not c[3][0][1] and len(c[3]) == 1
        ctx.check(ok, m, '{}: name -> statistic of its own column'.format(nm),
                  '{{k: {}(v, ...) for k, v in self.samples.items()}}'.format(stat),
                  '{} does not return, for every parameter name, the statistic of that '
                  'parameter\'s own column'.format(nm), fn=m, node=rr[0] if rr else m.node)
    simple = (('sample_means_array', ('np.array(list(self.sample_means.values()))',
                                      'np.array(tuple(self.sample_means.values()))',
                                      'np.asarray(list(self.sample_means.values()))')),
              ('dim', ('len(self.parameter_names)',)),
              ('discrepancies', ('None if self.discrepancy_name is None else '
                                 'self.outputs[self.discrepancy_name]',
                                 'self.outputs[self.discrepancy_name] if '
                                 'self.discrepancy_name is not None else None')))
    for nm, pats in simple:
        m = s.methods.get(nm)
        if m is None:
            raise AnchorMissing('Sample.' + nm)
        ctx.touch(m)
        ex = ctx.ex(m)
        rr = returns(m)
        ok = len(rr) >= 1 and _all_exits_return(m)
        if ok and len(rr) == 1:
            ok = match_any(ex.term(rr[0].value), pats) is not None
        elif ok and nm == 'discrepancies':
            # if / else form of the same selection
            vals = set()
            for r in rr:
                t = ex.term(r.value)
                g = [(x, p) for (x, p, _) in ctx.guards(m, r)]
                if t == ('const', None):
                    vals.add(('none', any(p and match(x, pattern(
                        'self.discrepancy_name is None')) is not None for (x, p) in g)))
                elif match(t, pattern('self.outputs[self.discrepancy_name]')) is not None:
                    vals.add(('disc', any((not p) and match(x, pattern(
                        'self.discrepancy_name is None')) is not None for (x, p) in g)))
                else:
                    vals.add(('other', False))
            ok = vals == {('none', True), ('disc', True)}
        elif ok:
            ok = False
        ctx.check(ok, m, nm, pats[0][:70],
                  '{} is not `{}`'.format(nm, pats[0][:80]), fn=m, node=rr[0] if rr else m.node)
    init = ctx.own_method(s, '__init__')
    exi = ctx.ex(init)
    st = [x for (x, t, k) in ctx.stores(init, 'self.discrepancy_name') if isinstance(x, ast.Assign)]
    ok = len(st) == 1 and exi.term(st[0].value) == ('param', 'discrepancy_name') and \
        cfg_of(init).must_pass([ctx.node(init, st[0])])
    ctx.check(ok, init, 'discrepancy name stored as given',
              'self.discrepancy_name = discrepancy_name',
              'the discrepancy name is not stored', fn=init, node=st[0] if st else init.node)
    base = ctx.cls('elfi.methods.results:ParameterInferenceResult')
    bi = ctx.own_method(base, '__init__')
    exb = ctx.ex(bi)
    for field in ('method_name', 'parameter_names'):
        st = [x for (x, t, k) in ctx.stores(bi, 'self.' + field) if isinstance(x, ast.Assign)]
        ok = len(st) == 1 and exb.term(st[0].value) == ('param', field)
        ctx.check(ok, bi, '{} stored as given'.format(field), 'self.{0} = {0}'.format(field),
                  'the result does not keep the {} it was given'.format(field), fn=bi,
                  node=st[0] if st else bi.node)
    st = [x for (x, t, k) in ctx.stores(bi, 'self.meta') if isinstance(x, ast.Assign)]
    kw = bi.node.args.kwarg.arg if bi.node.args.kwarg else None
    ok = len(st) == 1 and kw is not None and exb.term(st[0].value) in (
        ('param', kw), pattern_term('dict({})'.format(kw)))
    ctx.check(ok, bi, 'meta information kept', 'self.meta = kwargs',
              'the extra keyword information (n_sim, threshold, warmup ...) is not kept', fn=bi,
              node=st[0] if st else bi.node)
    ga = s.methods.get('__getattr__')
    if ga is not None:
        ctx.touch(ga)
        exg = ctx.ex(ga)
        p = ga.params[1]
        rr = returns(ga)
        ok = len(rr) == 1 and match(exg.term(rr[0].value),
                                    pattern('self.meta[{}]'.format(p))) is not None and \
            any(pol and match_any(t, ('{} in self.meta.keys()'.format(p),
                                      '{} in self.meta'.format(p))) is not None
                for (t, pol, _) in ctx.guards(ga, rr[0]))
        rs = ctx.stmts(ga, ast.Raise)
        ok = ok and bool(rs) and all(any((not pol) and match_any(
            t, ('{} in self.meta.keys()'.format(p), '{} in self.meta'.format(p))) is not None
            for (t, pol, _) in ctx.guards(ga, r)) for r in rs)
        ctx.check(ok, ga, 'meta items readable as attributes',
                  'return self.meta[item] if present else AttributeError',
                  '__getattr__ does not return exactly the stored meta item', fn=ga,
                  node=rr[0] if rr else ga.node)


@obligation('C16-i', 'T11 T8', 'save: each format\'s writer runs under its own extension and '
            'writes the sample\'s own data to the named file', floor=8,
            necessary='a writer under another extension\'s test, or a document that is built and '
                      'not written, does not read back as the same samples')
def c16_i(ctx):
    s = ctx.cls(S)
    sv = ctx.own_method(s, 'save')
    ex = ctx.ex(sv)

    def under(node, kind, others):
        g = ctx.guards(sv, node)
        yes = any(pol and match_any(t, ("_k == '{}'".format(kind), "'{}' == _k".format(kind)))
                  is not None for (t, pol, _) in g)
        no = not any(pol and match_any(t, ("_k == '{}'".format(o), "'{}' == _k".format(o)))
                     is not None for (t, pol, _) in g for o in others)
        return yes and no

    def opened(node, mode):
        """the `with open(fname, mode ...) as f` around node -> name of f, or None"""
        n = node
        while n is not None and n is not sv.node:
            if isinstance(n, ast.With):
                for it in n.items:
                    c = it.context_expr
                    if isinstance(c, ast.Call) and callee_name(c) == 'open' and c.args and \
                            ex.term(c.args[0]) == ('param', 'fname') and \
                            isinstance(it.optional_vars, ast.Name):
                        md = ex.term(c.args[1]) if len(c.args) > 1 else dict(
                            (k.arg, ex.term(k.value)) for k in c.keywords).get('mode')
                        if md == ('const', mode):
                            return it.optional_vars.id
            n = getattr(n, '_parent', None)
        return None
    # csv
    hdr = ctx.calls(sv, name='writerow')
    rows = ctx.calls(sv, name='writerows')
    okc = len(hdr) == 1 and len(rows) == 1 and under(hdr[0], 'csv', ('json', 'pkl')) and \
        under(rows[0], 'csv', ('json', 'pkl'))
    if okc:
        f = opened(hdr[0], 'w')
        wr = ex.term(hdr[0].func.value)
        okc = f is not None and opened(rows[0], 'w') == f and \
            ex.term(rows[0].func.value) == wr and \
            match(ex.raw1(hdr[0].func.value) if isinstance(hdr[0].func.value, ast.Name)
                  else wr, pattern('csv.writer({})'.format(f))) is not None
    ctx.check(okc, sv, 'csv rows written under .csv to the named file',
              "if kind == 'csv': with open(fname, 'w') as f: csv.writer(f).writerow/writerows",
              'the csv writer does not run exactly for the csv extension on the file opened '
              'from fname', fn=sv, node=hdr[0] if hdr else sv.node)
    # pkl
    pk = ctx.calls(sv, 'pickle.dump(self, *_)')
    okp = len(pk) == 1 and under(pk[0], 'pkl', ()) and len(pk[0].args) >= 2
    if okp:
        f = opened(pk[0], 'wb')
        okp = f is not None and ex.raw(pk[0].args[1]) == ('name', f)
    ctx.check(okp, sv, 'pickle written under .pkl to the named file (binary)',
              "elif kind == 'pkl': with open(fname, 'wb') as f: pickle.dump(self, f, ...)",
              'the pickle is not written exactly for the pkl extension to the file opened from '
              'fname in binary mode', fn=sv, node=pk[0] if pk else sv.node)
    # json
    dumps = ctx.calls(sv, 'json.dumps(_)') + ctx.calls(sv, 'json.dump(_, _)')
    okj = len(dumps) == 1 and under(dumps[0], 'json', ('pkl',))
    doc = None
    if okj:
        f = opened(dumps[0], 'w')
        doc = dumps[0].args[0].id if isinstance(dumps[0].args[0], ast.Name) else None
        if callee_name(dumps[0]) == 'dumps':
            wr = [c for c in ctx.calls(sv, name='write') if isinstance(c.func.value, ast.Name)
                  and c.func.value.id == f and c.args and
                  contains(ex.term(c.args[0]), 'json.dumps(_)')]
            okj = f is not None and len(wr) == 1 and under(wr[0], 'json', ('pkl',)) and \
                opened(wr[0], 'w') == f
        else:
            okj = f is not None and ex.raw(dumps[0].args[1]) == ('name', f)
    ctx.check(okj and doc is not None, sv, 'json document written under .json to the named file',
              "elif kind == 'json': with open(fname, 'w') as f: f.write(json.dumps(data))",
              'the json document is not serialised and written exactly for the json extension '
              'to the file opened from fname', fn=sv, node=dumps[0] if dumps else sv.node)
    if not (okj and doc is not None):
        return
    # the document: the object's own fields, converted to plain python types, before dumping
    fill = [c for c in ctx.calls(sv, 'sample_object_to_dict(*_)') if c.args and
            ex.raw(c.args[0]) == ('name', doc)]
    okf = False
    if len(fill) == 1:
        callee = ctx.fn('elfi.methods.utils:sample_object_to_dict')
        from .base import bind_args
        b = bind_args(fill[0], callee, skip_self=False)
        okf = b is not None and 'elem' in b and ex.term(b['elem']) == ('param', 'self') and \
            ctx.must_precede(sv, fill, dumps[0]) and under(fill[0], 'json', ('pkl',)) and \
            len(ctx.guard_groups(sv, fill[0])) == len(ctx.guard_groups(sv, dumps[0]))
    ctx.check(okf, sv, 'document filled from the sample itself',
              'sample_object_to_dict(data, self, ...) before json.dumps(data)',
              'the json document is not filled from the sample object (unconditionally, before '
              'it is serialised)', fn=sv, node=fill[0] if fill else dumps[0])
    conv = [c for c in ctx.calls(sv, 'numpy_to_python_type(_)') if
            ex.raw(c.args[0]) == ('name', doc)]
    okv = len(conv) == 1 and ctx.must_precede(sv, conv, dumps[0]) and bool(fill) and \
        ctx.must_precede(sv, fill, conv[0]) and \
        len(ctx.guard_groups(sv, conv[0])) == len(ctx.guard_groups(sv, dumps[0]))
    ctx.check(okv, sv, 'numpy values converted after filling, before serialising',
              'sample_object_to_dict < numpy_to_python_type < json.dumps',
              'the document is serialised before its numpy values are converted (json.dumps '
              'raises on arrays) or converted before it is filled', fn=sv,
              node=conv[0] if conv else dumps[0])
    init = [n for n in own_nodes(sv.node) if isinstance(n, ast.Assign) and
            isinstance(n.targets[0], ast.Name) and n.targets[0].id == doc]
    oki = len(init) == 1 and match_any(ex.raw(init[0].value), ('OrderedDict()', 'dict()')) \
        is not None or (len(init) == 1 and ex.raw(init[0].value) == ('dict', ()))
    ctx.check(oki, sv, 'document starts empty', 'data = OrderedDict()',
              'the json document is not started as an empty mapping', fn=sv,
              node=init[0] if init else dumps[0])
    # populations are written out per population, when the sample has them
    so = ctx.fn('elfi.methods.utils:sample_object_to_dict')
    exs = ctx.ex(so)
    st = [n for n in own_nodes(so.node) if isinstance(n, ast.Assign) and
          isinstance(n.targets[0], ast.Subscript) and
          exs.term(n.targets[0].value) == ('param', 'data')]
    keys = set()
    for n in st:
        k = exs.term(n.targets[0].slice)
        v = exs.term(n.value)
        # the value itself, or a copy of it when it is a mapping (C16-j)
        if v[0] == 'ifexp' and match(v[1], pattern('isinstance(_x, _t)')) is not None and \
                v[3] == match(v[1], pattern('isinstance(_x, _t)'))['x'] and \
                match_any(v[2], ('_x.copy()', 'dict(_x)', 'OrderedDict(_x)', 'copy.copy(_x)',
                                 'copy.deepcopy(_x)')) is not None and \
                match_any(v[2], ('_x.copy()', 'dict(_x)', 'OrderedDict(_x)', 'copy.copy(_x)',
                                 'copy.deepcopy(_x)'))['x'] == v[3]:
            v = v[3]
        if k[0] == 'item' and v[0] == 'item' and k[1] == v[1] and (k[2], v[2]) == (0, 1):
            keys.add(show(k[1])[:60])
    ctx.check(len(st) == 2 and len(keys) == 2, so, 'fields and meta items copied under their own '
              'keys', 'data[key] = val for the object\'s fields and its meta items',
              'sample_object_to_dict does not copy every (key, value) under its own key', fn=so,
              node=st[0] if st else so.node)
    def g(node, pat, pol):
        return any(p_ == pol and match(t, pattern(pat)) is not None
                   for (t, p_, _) in ctx.guards(so, node))
    SKIP = "_k in ['outputs', skip]"
    META = "_k == 'meta'"
    oks = len(st) == 2 and all(g(n, SKIP, False) for n in st) and \
        sorted(g(n, META, True) for n in st) == [False, True] and \
        sorted(g(n, META, False) for n in st) == [False, True]
    if oks:
        meta_st = [n for n in st if g(n, META, True)][0]
        lo = enclosing_loop(meta_st)
        oks = isinstance(lo, ast.For) and \
            match(exs.term(lo.iter, cfg_of(so).by_stmt[id(lo)]),
                  pattern("elem.__dict__['meta'].items()")) is not None or \
            (isinstance(lo, ast.For) and contains(
                exs.term(lo.iter, cfg_of(so).by_stmt[id(lo)]), 'elem.__dict__[_].items()'))
    ctx.check(oks, so, 'outputs and the named key skipped, meta items flattened, the rest copied',
              "skip if key in ['outputs', skip]; meta -> its items; else data[key] = val",
              'sample_object_to_dict does not skip exactly `outputs` and the named key, flatten '
              'the meta items and copy every other field', fn=so, node=st[0] if st else so.node)


@obligation('C16-j', 'T14 T2', 'saving does not modify the sample: the json document owns every '
            'mapping that the type conversion rewrites in place', floor=2,
            necessary='the conversion replaces the arrays inside nested mappings by lists; if '
                      'the document holds the sample\'s own `samples` mapping, the saved object '
                      'is left with lists and its quantiles raise TypeError')
def c16_j(ctx):
    conv = ctx.fn('elfi.methods.utils:numpy_to_python_type')
    exc = ctx.ex(conv)
    p0 = conv.params[0]
    nested = [n for n in own_nodes(conv.node) if isinstance(n, ast.Assign) and
              isinstance(n.targets[0], ast.Subscript) and
              isinstance(n.targets[0].value, ast.Subscript) and
              exc.term(n.targets[0].value.value) == ('param', p0)]
    # also: a local alias of a nested mapping that is then assigned into
    nested += [n for n in own_nodes(conv.node) if isinstance(n, ast.Assign) and
               isinstance(n.targets[0], ast.Subscript) and
               isinstance(n.targets[0].value, ast.Name) and
               exc.term(n.targets[0].value)[0] in ('item', 'elem') and
               contains(exc.term(n.targets[0].value), ('param', p0))]
    so = ctx.fn('elfi.methods.utils:sample_object_to_dict')
    exs = ctx.ex(so)
    stores = [n for n in own_nodes(so.node) if isinstance(n, ast.Assign) and
              isinstance(n.targets[0], ast.Subscript) and
              exs.term(n.targets[0].value) == ('param', 'data')]
    if not stores:
        raise AnchorMissing('sample_object_to_dict stores nothing into the document')
    if not nested:
        ctx.ok(conv, 'conversion builds new nested mappings', 'no in-place write into a nested '
               'mapping of the document', fn=conv, node=conv.node)
        for n in stores:
            ctx.ok(so, 'document entry may be shared (nothing rewrites it in place)', src(n)[:60],
                   fn=so, node=n)
        return
    ctx.fact('dict.copy() / OrderedDict.copy() return a new mapping with the same values')
    for n in stores:
        v = exs.term(n.value)
        owned = False
        for alt in (v[1] if v[0] == 'phi' else (v,)):
            pass
        # accepted: V.copy() if isinstance(V, dict) else V | copy.copy(V) | copy.deepcopy(V) |
        # dict(V) if isinstance(V, dict) else V
        m = match_any(v, ('_v.copy() if isinstance(_v, dict) else _v',
                          'dict(_v) if isinstance(_v, dict) else _v',
                          'OrderedDict(_v) if isinstance(_v, dict) else _v',
                          'copy.copy(_v)', 'copy.deepcopy(_v)',
                          '_v.copy() if isinstance(_v, (dict, OrderedDict)) else _v'))
        owned = m is not None
        ctx.check(owned, so, 'document entry is a copy when it is a mapping',
                  'data[key] = val.copy() if isinstance(val, dict) else val',
                  '`{}` puts the object\'s own value into the document, and {} rewrites nested '
                  'mappings in place (`{}`): after save() the sample\'s `samples` hold lists'
                  .format(src(n)[:50], conv.name, src(nested[0])[:50]), fn=so, node=n)


@obligation('C16-k', 'T6 T11', 'a requested warm-up length of 0 is never tested by truth value',
            floor=1,
            necessary='`warmup or n // 2` replaces a requested warm-up of 0 by half the chain: the '
                      'sample then lacks a prefix the caller did not ask to be removed')
def c16_k(ctx):
    from .base import zero_is_valid_obligation
    zero_is_valid_obligation(ctx, ['warmup'])


@obligation('C16-l', 'T2', 'the diagnostics and the weighted statistics behind a result object '
            'contain no absolute tolerance', floor=5,
            necessary='the property demands invariance under affine rescaling of the chains: a '
                      'test against an absolute number (np.isclose(var, 0), var < 1e-8) answers '
                      'differently for the same chains expressed in other units')
def c16_l(ctx):
    from .base import scale_free_sweep
    fns = [ctx.fn('elfi.methods.mcmc:eff_sample_size'),
           ctx.fn('elfi.methods.mcmc:gelman_rubin_statistic'),
           ctx.fn('elfi.methods.utils:weighted_sample_quantile'),
           ctx.fn('elfi.methods.utils:weighted_var'),
           ctx.fn('elfi.methods.utils:normalize_weights')]
    scale_free_sweep(ctx, fns, 'the diagnostic is no longer invariant under rescaling of the '
                               'chains (chains with a small spread are treated as constant)')


@obligation('C16-m', 'T2', 'no result buffer takes the dtype of a caller\'s array and then receives '
            'computed values (shared sweep of C08-l, restricted to the modules this property is '
            'anchored in; `*_like(x)` and `dtype=x.dtype` allocations)', floor=1,
            necessary='the result object reports what the sampler produced, not values truncated to the dtype of an argument (numpy truncates floats silently when they are assigned into an '
                      'integer array)')
def c16_dtype(ctx):
    from .base import inherited_dtype_obligation
    inherited_dtype_obligation(ctx, ['elfi.methods.results', 'elfi.methods.mcmc'])
