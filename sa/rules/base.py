"""Obligation framework: registration, the context handed to rules, common selectors."""

import ast

from .. import AnalysisError, AnchorMissing
from ..cfg import cfg_of
from ..model import own_nodes, enclosing_stmt
from ..values import (expander_of, pattern, match, find, find_all, contains, show, subterms,
                      to_term, Scope, alias)

MUTATING_METHODS = {'append', 'extend', 'update', 'pop', 'popitem', 'clear', 'add', 'remove',
                    'insert', 'setdefault', '__setitem__', '__delitem__', 'discard', 'sort',
                    'reverse', 'move_to_end'}


class Obligation:
    def __init__(self, oid, templates, title, floor, func, necessary=''):
        self.id = oid
        self.templates = templates
        self.title = title
        self.floor = floor
        self.func = func
        self.necessary = necessary


REGISTRY = {}   # property id -> [Obligation]


def obligation(oid, templates, title, floor=1, necessary=''):
    prop = oid.split('-')[0]

    def deco(f):
        REGISTRY.setdefault(prop, []).append(
            Obligation(oid, templates, title, floor, f, necessary))
        return f
    return deco


class Ctx:
    """What a rule sees: the parsed repo, the call graph, and the reporting interface."""

    def __init__(self, repo, cg, prop, tier='quick'):
        self.repo = repo
        self.cg = cg
        self.prop = prop
        self.tier = tier
        self.instances = []
        self.current = None          # Obligation being run
        self.functions_touched = {}  # qname -> FunctionInfo
        self.library_facts = []
        self.assumptions = []
        self.notes = []

    # -- reporting ---------------------------------------------------------
    def _record(self, verdict, construct, role, detail, fn, node, anchors):
        ob = self.current
        rel, line = None, None
        if fn is not None:
            rel = fn.module.relpath
            line = getattr(node, 'lineno', None) or fn.node.lineno
            self.touch(fn)
        anc = []
        for a in ([node] if node is not None else []) + list(anchors or []):
            if a is None or not hasattr(a, 'lineno'):
                continue
            anc.append({'file': rel, 'line': a.lineno, 'col': a.col_offset,
                        'end_line': getattr(a, 'end_lineno', a.lineno),
                        'end_col': getattr(a, 'end_col_offset', a.col_offset),
                        'node': type(a).__name__})
        self.instances.append({
            'obligation': ob.id, 'templates': ob.templates, 'construct': construct,
            'role': role, 'verdict': verdict, 'detail': detail, 'file': rel, 'line': line,
            'anchors': anc})

    def ok(self, construct, role, detail='', fn=None, node=None, anchors=None):
        self._record('ok', _cname(construct), role, detail, _cfn(construct, fn), node, anchors)

    def bad(self, construct, role, detail, fn=None, node=None, anchors=None):
        self._record('violated', _cname(construct), role, detail, _cfn(construct, fn), node,
                     anchors)

    def check(self, cond, construct, role, ok_detail='', bad_detail='', fn=None, node=None,
              anchors=None):
        if cond:
            self.ok(construct, role, ok_detail, fn=fn, node=node, anchors=anchors)
        else:
            self.bad(construct, role, bad_detail or ok_detail, fn=fn, node=node, anchors=anchors)
        return bool(cond)

    def undecided(self, msg):
        raise AnalysisError('{}: {}'.format(self.current.id if self.current else '?', msg))

    def fact(self, text):
        if text not in self.library_facts:
            self.library_facts.append(text)

    def assume(self, text):
        if text not in self.assumptions:
            self.assumptions.append(text)

    def touch(self, fn):
        self.functions_touched[fn.qname] = fn

    # -- anchors -----------------------------------------------------------
    def fn(self, qname):
        f = self.repo.function(qname)
        self.touch(f)
        return f

    def cls(self, qname):
        return self.repo.cls(qname)

    def ex(self, fn):
        self.touch(fn)
        return expander_of(self.repo, fn)

    def cfg(self, fn):
        return cfg_of(fn)

    def own_method(self, cls, name):
        """Method `name` as seen from class `cls` (MRO); AnchorMissing if absent."""
        m = cls.lookup(name)
        if m is None:
            raise AnchorMissing('{}.{} not found'.format(cls.qname, name))
        self.touch(m)
        return m

    # -- selectors ---------------------------------------------------------
    def term(self, fn, expr, at=None):
        return self.ex(fn).term(expr, at)

    def calls(self, fn, pat=None, name=None, resolved_to=None):
        """Calls in fn's own body.

        pat         : pattern that the *expanded* call term must match
        name        : attribute / function name of the callee (syntactic)
        resolved_to : FunctionInfo (or list) that the call graph resolves the call to
        """
        out = []
        ex = self.ex(fn)
        p = pattern(pat) if pat is not None else None
        if resolved_to is not None and not isinstance(resolved_to, (list, tuple, set)):
            resolved_to = [resolved_to]
        for n in own_nodes(fn.node):
            if not isinstance(n, ast.Call):
                continue
            if name is not None:
                f = n.func
                nm = f.attr if isinstance(f, ast.Attribute) else (
                    f.id if isinstance(f, ast.Name) else None)
                if nm != alias(name):
                    continue
            if p is not None:
                t = ex.term(n)
                if match(t, p) is None:
                    continue
            if resolved_to is not None:
                ts = self.cg.resolve(fn, n, may=True)
                if not any(t in ts for t in resolved_to):
                    continue
            out.append(n)
        out.sort(key=lambda n: (n.lineno, n.col_offset))
        return out

    def stmts(self, fn, types=None):
        out = []
        for n in own_nodes(fn.node):
            if isinstance(n, ast.stmt) and (types is None or isinstance(n, types)):
                out.append(n)
        return out

    def exprs(self, fn, types):
        return [n for n in own_nodes(fn.node) if isinstance(n, types)]

    def stores(self, fn, pat, expanded=True, include_mutators=True):
        """Statements of fn that write to a location matching `pat`.

        Returns [(stmt, target expr, kind)], kind in assign/aug/del/call:<method>.
        Targets are matched after alias expansion (``s = self.state; s['k'] = v`` writes
        ``self.state['k']``).
        """
        p = pattern(pat)
        ex = self.ex(fn)
        out = []

        def tterm(t):
            return ex.term(t) if expanded else ex.raw(t)

        def targets_of(t):
            if isinstance(t, (ast.Tuple, ast.List)):
                for e in t.elts:
                    yield from targets_of(e)
            elif isinstance(t, ast.Starred):
                yield from targets_of(t.value)
            else:
                yield t
        for n in own_nodes(fn.node):
            if isinstance(n, ast.Assign):
                for tt in n.targets:
                    for t in targets_of(tt):
                        if not isinstance(t, ast.Name) and match(tterm(t), p) is not None:
                            out.append((n, t, 'assign'))
            elif isinstance(n, ast.AugAssign):
                if not isinstance(n.target, ast.Name) and match(tterm(n.target), p) is not None:
                    out.append((n, n.target, 'aug'))
            elif isinstance(n, ast.AnnAssign) and n.value is not None:
                if not isinstance(n.target, ast.Name) and match(tterm(n.target), p) is not None:
                    out.append((n, n.target, 'assign'))
            elif isinstance(n, ast.Delete):
                for t in n.targets:
                    if not isinstance(t, ast.Name) and match(tterm(t), p) is not None:
                        out.append((n, t, 'del'))
            elif include_mutators and isinstance(n, ast.Call) and \
                    isinstance(n.func, ast.Attribute) and n.func.attr in MUTATING_METHODS:
                if match(tterm(n.func.value), p) is not None:
                    out.append((enclosing_stmt(n), n, 'call:' + n.func.attr))
        out.sort(key=lambda x: (x[0].lineno, x[0].col_offset))
        return out

    def node(self, fn, astnode):
        n = cfg_of(fn).node_of(astnode)
        if n is None:
            raise AnalysisError('no CFG node for {} in {}'.format(
                getattr(astnode, 'lineno', '?'), fn.qname))
        return n

    def nodes(self, fn, astnodes):
        return [self.node(fn, a) for a in astnodes]

    def must_precede(self, fn, firsts, then):
        """Every path to `then` passes through one of `firsts` (AST nodes)."""
        cfg = cfg_of(fn)
        tn = self.node(fn, then)
        fns = [self.node(fn, f) for f in firsts]
        same = [f for f, n in zip(firsts, fns) if n is tn]
        if same:
            # same statement: evaluation order inside the statement (left to right,
            # arguments before the call)
            for f in same:
                if _evaluated_before(f, then):
                    return True
        return cfg.must_precede([n for n in fns if n is not tn], tn)

    def must_follow(self, fn, first, thens):
        """Every path from `first` to the normal exit passes through one of `thens`."""
        cfg = cfg_of(fn)
        a = self.node(fn, first)
        tn = [self.node(fn, t) for t in thens]
        for t, n in zip(thens, tn):
            if n is a and _evaluated_before(first, t):
                return True
        return cfg.must_follow(a, [n for n in tn if n is not a])

    def guards(self, fn, astnode, all_dominating=False):
        """[(test term, polarity, test ast)] that hold whenever astnode executes."""
        cfg = cfg_of(fn)
        ex = self.ex(fn)
        out = []
        # For a `raise` the question is always "which test decides this refusal": only the
        # tests it is nested in count.  A test of an *earlier* refusal that was passed also
        # dominates it (with the opposite polarity) - counting it would let the negation of
        # the earlier test satisfy a rule about this one.
        st = astnode
        while st is not None and not isinstance(st, ast.stmt):
            st = getattr(st, '_parent', None)
        nest_only = None
        if isinstance(st, ast.Raise) and not all_dominating:
            nest_only = set()
            a = getattr(st, '_parent', None)
            while a is not None and a is not fn.node:
                if isinstance(a, (ast.If, ast.While, ast.IfExp)):
                    nest_only.add(id(a.test))
                a = getattr(a, '_parent', None)
        for (t, pol) in cfg.guards_of(self.node(fn, astnode)):
            if t.kind == 'test':
                if nest_only is not None and id(t.ast) not in nest_only:
                    # an earlier test that was passed counts only if its other branch is not
                    # itself a refusal (`if A: return x` + `raise` keeps "A is false";
                    # `if A: raise` + `if B: raise` does not)
                    stt = getattr(t, 'stmt', None)
                    other = None
                    if isinstance(stt, ast.If):
                        other = stt.body if pol is False else stt.orelse
                    if not other or isinstance(other[-1], ast.Raise):
                        continue
                term = ex.term(t.ast, t)
                seen = set()
                todo = [(term, pol)]
                while todo:
                    (x, p) = todo.pop()
                    for (t2, p2) in guard_equivalents(x, p):
                        if (t2, p2) in seen:
                            continue
                        seen.add((t2, p2))
                        # an explicit `not X` is only handed out in its unwrapped form (X with
                        # the opposite polarity, also in this list): `contains` on the wrapped
                        # term would see the atoms of X under the wrong polarity
                        if t2[0] == 'unary' and t2[1] == 'not':
                            continue
                        # a true disjunction / false conjunction says nothing about its parts:
                        # it is handed out wrapped, so that `contains` cannot look inside
                        # (unweak() gives the term back for rules that match it as a whole)
                        if t2[0] == 'bool' and ((t2[1] == 'or' and p2) or
                                                (t2[1] == 'and' and not p2)):
                            out.append((('weak', t2), p2, t.ast))
                        else:
                            out.append((t2, p2, t.ast))
                        # facts implied by a true conjunction / a false disjunction
                        if t2[0] == 'bool' and ((t2[1] == 'and' and p2) or
                                                (t2[1] == 'or' and not p2)):
                            for item in t2[2]:
                                todo.append((item, p2))
        return out

    def guard_groups(self, fn, astnode):
        """One list of equivalent (term, polarity) statements per dominating test."""
        cfg = cfg_of(fn)
        ex = self.ex(fn)
        out = []
        for (t, pol) in cfg.guards_of(self.node(fn, astnode)):
            if t.kind == 'test':
                out.append(guard_equivalents(ex.term(t.ast, t), pol))
        return out

    def only_guarded_by(self, fn, astnode, pats, at_most=None):
        """Every test that dominates astnode states (positively) one of `pats`."""
        groups = self.guard_groups(fn, astnode)
        ps = [pattern(p) for p in pats]
        for g in groups:
            if not any(pol and any(match(t, p) is not None for p in ps) for (t, pol) in g):
                return False
        if at_most is not None and len(groups) > at_most:
            return False
        return True

    # -- discovery through the call graph -----------------------------------
    def reachable(self, entries, depth=None, may=True):
        if not isinstance(entries, (list, tuple)):
            entries = [entries]
        if depth is None:
            fs = self.cg.reachable(entries, may=may)
        else:
            fs, frontier = list(entries), list(entries)
            for _ in range(depth):
                nxt = []
                for f in frontier:
                    for t in self.cg.callees(f, may=may):
                        if t not in fs:
                            fs.append(t)
                            nxt.append(t)
                frontier = nxt
        for f in fs:
            self.touch(f)
        return fs

    def discover(self, entries, pred, depth=3, what='helper', may=True, expect=None):
        """Functions reachable from `entries` (call depth <= depth) for which pred(fn) holds.

        Private helpers are addressed this way, never by name.
        """
        fs = [f for f in self.reachable(entries, depth=depth, may=may) if pred(f)]
        if not fs:
            raise AnchorMissing('no function reachable from {} is {}'.format(
                ', '.join(e.qname for e in (entries if isinstance(entries, (list, tuple))
                                            else [entries])), what))
        return fs

    def writes(self, fn, pat):
        return bool(self.stores(fn, pat))

    def has_call(self, fn, pat):
        return bool(self.calls(fn, pat))


_NEG_CMP = {'is': 'is not', 'is not': 'is', '==': '!=', '!=': '==', 'in': 'not in',
            'not in': 'in'}


def negate_term(t):
    """Syntactic negation of a test term (one step), or None."""
    if t[0] == 'unary' and t[1] == 'not':
        return t[2]
    if t[0] == 'cmp':
        if t[1] in _NEG_CMP:
            return ('cmp', _NEG_CMP[t[1]], t[2], t[3])
        if t[1] == '<':
            return ('cmp', '<=', t[3], t[2])
        if t[1] == '<=':
            return ('cmp', '<', t[3], t[2])
    if t[0] == 'bool':
        parts = [negate_term(x) for x in t[2]]
        if all(p is not None for p in parts):
            return ('bool', 'or' if t[1] == 'and' else 'and', tuple(parts))
    return None


def unweak(t):
    """The term of a guard that ctx.guards handed out wrapped (see there)."""
    return t[1] if isinstance(t, tuple) and t and t[0] == 'weak' else t


def guard_equivalents(t, pol):
    """(term, polarity) pairs that state the same fact: `not c` true == `c` false, etc."""
    out = [(t, pol)]
    seen = {(t, pol)}
    todo = [(t, pol)]
    while todo:
        (x, p) = todo.pop()
        cands = []
        # only forms in which every atom keeps its own polarity visible: flipped comparisons,
        # De Morgan, and unwrapping of an explicit `not` (never wrapping: `contains` on a
        # wrapped term would see the atom under the wrong polarity)
        n = negate_term(x)
        if n is not None:
            cands.append((n, not p))
        for c in cands:
            if c not in seen and len(seen) < 12:
                seen.add(c)
                out.append(c)
                if not (c[0][0] == 'unary' and c[0][2][0] == 'unary'):
                    todo.append(c)
    return out


def _cname(construct):
    return construct.qname if hasattr(construct, 'qname') else str(construct)


def _cfn(construct, fn):
    if fn is not None:
        return fn
    return construct if hasattr(construct, 'qname') and hasattr(construct, 'module') and \
        hasattr(construct, 'node') and hasattr(construct, 'params') else None


def _evaluated_before(a, b):
    """Within one statement: is expression `a` fully evaluated before call `b` happens?"""
    # a inside b's arguments -> evaluated before b is called
    n = a
    while n is not None and not isinstance(n, ast.stmt):
        p = getattr(n, '_parent', None)
        if p is b and n is not getattr(b, 'func', None):
            return True
        n = p
    # otherwise textual order for siblings
    return (a.end_lineno, a.end_col_offset) <= (b.lineno, b.col_offset)


def callee_name(call):
    f = call.func
    if isinstance(f, ast.Attribute):
        return f.attr
    if isinstance(f, ast.Name):
        return f.id
    return None


def src(node):
    try:
        return ast.unparse(node)
    except Exception:
        return '<{}>'.format(type(node).__name__)


def split_if(ex, ifnode):
    """(test term with leading `not`s removed, block when it holds, block when it does not)."""
    t = ex.term(ifnode.test)
    body, orelse = ifnode.body, ifnode.orelse
    while t[0] == 'unary' and t[1] == 'not':
        t = t[2]
        body, orelse = orelse, body
    return t, body, orelse


def if_branches(ex, ifnode, pats):
    """(block where one of `pats` holds, block where it does not) or None.

    Recognises the test itself, `not test`, and the syntactic negation (is / is not, == / !=,
    in / not in, De Morgan) - so swapping the branches of an if/else does not matter.
    """
    if isinstance(pats, str):
        pats = (pats,)
    t, body, orelse = split_if(ex, ifnode)
    for p in pats:
        if match(t, pattern(p)) is not None:
            return body, orelse
    n = negate_term(t)
    if n is not None:
        for p in pats:
            if match(n, pattern(p)) is not None:
                return orelse, body
    return None


# ---------------------------------------------------------------------------------------------
# shared sweep: options whose value 0 is legitimate are never tested by truthiness

def zero_is_valid_sweep(ctx, names, what):
    """Every boolean use (`if x`, `not x`, `x or d`, `x and y`, bool(x)) of an expression that
    denotes one of `names` (a local / parameter, an attribute `.name`, `d['name']`,
    `d.get('name')`) in the package, outside examples.  `x or <falsy constant>` is harmless (the
    fallback equals the value it replaces) and is not reported."""
    n_sites = 0

    def denotes(e):
        if isinstance(e, ast.Name) and e.id in names:
            return e.id
        if isinstance(e, ast.Attribute) and e.attr in names:
            return e.attr
        if isinstance(e, ast.Subscript) and isinstance(e.slice, ast.Constant) and \
                e.slice.value in names:
            return e.slice.value
        if isinstance(e, ast.Call) and isinstance(e.func, ast.Attribute) and \
                e.func.attr == 'get' and e.args and isinstance(e.args[0], ast.Constant) and \
                e.args[0].value in names and len(e.args) == 1:
            return e.args[0].value
        return None
    base_denotes = denotes

    def local_aliases(fnode):
        """{local name: option} for `t = <denoting expr>` and for
        `a, b = [d.get(k) for k in ('x', 'y')]` / `(d['x'], d['y'])`."""
        out = {}
        counts = {}
        for n in ast.walk(fnode):
            if isinstance(n, ast.Name) and isinstance(n.ctx, ast.Store):
                counts[n.id] = counts.get(n.id, 0) + 1
        for n in ast.walk(fnode):
            if not isinstance(n, ast.Assign) or len(n.targets) != 1:
                continue
            tg, v = n.targets[0], n.value
            if isinstance(tg, ast.Name) and counts.get(tg.id) == 1:
                nm = base_denotes(v)
                if nm is not None:
                    out[tg.id] = nm
            if isinstance(tg, ast.Tuple) and all(isinstance(e, ast.Name) for e in tg.elts):
                keys = None
                if isinstance(v, (ast.ListComp, ast.GeneratorExp)) and len(v.generators) == 1 and \
                        isinstance(v.generators[0].iter, (ast.Tuple, ast.List)) and \
                        all(isinstance(e, ast.Constant) for e in v.generators[0].iter.elts):
                    keys = [e.value for e in v.generators[0].iter.elts]
                elif isinstance(v, (ast.Tuple, ast.List)):
                    keys = [base_denotes(e) for e in v.elts]
                if keys and len(keys) == len(tg.elts):
                    for e, k in zip(tg.elts, keys):
                        if k in names and counts.get(e.id) == 1:
                            out[e.id] = k
        return out
    for m in ctx.repo.modules.values():
        if not m.name.startswith('elfi') or m.name.startswith('elfi.examples') or \
                m.name.startswith('elfi.visualization'):
            continue
        fns = [f for f in m.all_functions if getattr(f, 'node', None) is not None and
               not isinstance(f.node, ast.Lambda)]
        for f in fns:
            al = local_aliases(f.node)

            def denotes(e, al=al):
                r = base_denotes(e)
                if r is None and isinstance(e, ast.Name) and e.id in al:
                    return al[e.id]
                return r
            for n in own_nodes(f.node):
                sites = []
                if isinstance(n, (ast.If, ast.While, ast.IfExp)):
                    sites.append((n.test, 'condition'))
                if isinstance(n, ast.UnaryOp) and isinstance(n.op, ast.Not):
                    sites.append((n.operand, 'not'))
                if isinstance(n, ast.BoolOp):
                    for i, v in enumerate(n.values):
                        last = i == len(n.values) - 1
                        if last and isinstance(n.op, ast.Or):
                            continue          # the fallback itself is not tested
                        if isinstance(n.op, ast.Or) and i == len(n.values) - 2:
                            fb = n.values[-1]
                            if isinstance(fb, ast.Constant) and not fb.value and \
                                    fb.value is not None:
                                continue      # `x or 0`: fallback equals the falsy value
                        sites.append((v, 'and/or operand'))
                if isinstance(n, ast.Call) and isinstance(n.func, ast.Name) and \
                        n.func.id == 'bool' and n.args:
                    sites.append((n.args[0], 'bool()'))
                for (e, kind) in sites:
                    nm = denotes(e)
                    if nm is None:
                        continue
                    n_sites += 1
                    ctx.bad(f, 'truthiness test of `{}`'.format(nm),
                            '`{}` is tested by truth value ({}): {} = 0 is a legitimate value and '
                            'is treated as "not given"'.format(src(e)[:50], kind, nm), fn=f,
                            node=n)
    return n_sites


_SWEEP_EXAMPLE = '''
def f(seed, threshold, d):
    if not seed:
        pass
    t = threshold or 1.0
    k = d.get('index_in_batch') or 0
    if d['batch_index']:
        pass
    ok = seed is None
'''


def zero_is_valid_obligation(ctx, names):
    """Body of the per-property obligations built on the sweep (expected count on a healthy tree:
    zero, so a positive example is matched on every run)."""
    import ast as _ast
    # positive example: the matcher must report `not seed`, `threshold or 1.0`, `d['batch_index']`
    # and must not report `... or 0` nor `seed is None`
    tree = _ast.parse(_SWEEP_EXAMPLE)
    for n in _ast.walk(tree):
        for c in _ast.iter_child_nodes(n):
            c._parent = n

    class _F:
        node = tree.body[0]
        qname = 'example:f'
        name = 'f'

    class _M:
        name = 'elfi._sweep_example'
        all_functions = [_F]

    class _R:
        modules = {'elfi._sweep_example': _M}

    class _C:
        repo = _R
        found = []

        def bad(self, f, role, detail, fn=None, node=None):
            self.found.append(role)
    probe = _C()
    zero_is_valid_sweep(probe, {'seed', 'threshold', 'batch_index', 'index_in_batch'}, '')
    if sorted(probe.found) != ['truthiness test of `batch_index`', 'truthiness test of `seed`',
                               'truthiness test of `threshold`']:
        raise AnalysisError('truthiness sweep self-test failed: {}'.format(sorted(probe.found)))
    before = len(ctx.instances)
    n = zero_is_valid_sweep(ctx, set(names), '')
    if n == 0:
        nf = sum(len(m.all_functions) for m in ctx.repo.modules.values()
                 if m.name.startswith('elfi') and not m.name.startswith('elfi.examples'))
        for nm in sorted(names):
            ctx.ok('elfi', 'no truthiness test of `{}`'.format(nm),
                   '{} functions scanned; positive example matched'.format(nf))


def inplace_param_sites(fnode):
    """Statements of a function that modify one of its parameters in place: augmented assignment
    to / subscript store into a parameter or a view of it (np.atleast_1d, asarray, ravel, squeeze,
    reshape return the input itself for an ndarray), or `out=` aimed at it.  A name that is
    re-bound to something else first is not an alias any more (path-insensitive: any plain
    re-binding removes it)."""
    args = fnode.args
    params = {a.arg for a in args.posonlyargs + args.args + args.kwonlyargs} - {'self', 'cls'}
    rebound = set()
    aliases = set(params)
    for n in ast.walk(fnode):
        if isinstance(n, ast.Assign) and len(n.targets) == 1 and \
                isinstance(n.targets[0], ast.Name):
            v = n.value
            view = isinstance(v, ast.Call) and v.args and isinstance(v.args[0], ast.Name) and \
                v.args[0].id in aliases and \
                (v.func.attr if isinstance(v.func, ast.Attribute) else getattr(v.func, 'id', '')) \
                in ('atleast_1d', 'atleast_2d', 'asarray', 'asanyarray', 'ravel', 'squeeze',
                    'reshape')
            if view:
                aliases.add(n.targets[0].id)
            elif n.targets[0].id in params:
                rebound.add(n.targets[0].id)
    aliases -= rebound
    out = []
    for n in ast.walk(fnode):
        if isinstance(n, ast.AugAssign):
            t = n.target
            base = t.value if isinstance(t, ast.Subscript) else t
            if isinstance(base, ast.Name) and base.id in aliases:
                out.append(n)
        elif isinstance(n, ast.Assign):
            for t in n.targets:
                if isinstance(t, ast.Subscript) and isinstance(t.value, ast.Name) and \
                        t.value.id in aliases:
                    out.append(n)
        elif isinstance(n, ast.Call):
            for k in n.keywords:
                if k.arg == 'out' and isinstance(k.value, ast.Name) and k.value.id in aliases:
                    out.append(n)
    return out


def bind_args(call, callee, skip_self=True):
    """{callee parameter name: argument expression} for a plain call (no * / ** arguments;
    returns None when the call uses them or does not fit the signature)."""
    params = [a.arg for a in callee.node.args.posonlyargs + callee.node.args.args]
    if skip_self and params and params[0] in ('self', 'cls'):
        params = params[1:]
    kwonly = [a.arg for a in callee.node.args.kwonlyargs]
    out = {}
    for i, a in enumerate(call.args):
        if isinstance(a, ast.Starred) or i >= len(params):
            return None
        out[params[i]] = a
    for k in call.keywords:
        if k.arg is None or (k.arg not in params and k.arg not in kwonly) or k.arg in out:
            return None
        out[k.arg] = k.value
    return out


def check_guard_table(ctx, table):
    """Frozen table of (function, statement pattern, [(guard pattern(s), polarity)], label).

    Each row was confirmed by reading.  The statement is found by matching the expanded term
    of a call / the value of an assignment against `what`; every listed guard must dominate it
    with the stated polarity.  A row whose statement is not found is an AnchorMissing (the
    table must be re-confirmed), never a silent pass.
    """
    from ..values import pattern, match, match_any
    from .. import AnchorMissing
    for (qname, what, guards, label) in table:
        fn = ctx.fn(qname)
        ex = ctx.ex(fn)
        sites = []
        if not what.startswith(('store:', 'raise:', 'assign:', 'substore:', 'subtarget:')):
            for n in own_nodes(fn.node):
                if isinstance(n, ast.Call) and match(ex.term(n), pattern(what)) is not None:
                    sites.append(n)
        if not sites and what.startswith('store:'):
            tgt = what[len('store:'):]
            sites = [s for (s, t, k) in ctx.stores(fn, tgt) if k == 'assign']
        if not sites and what.startswith('assign:'):
            vpat = what[len('assign:'):]
            sites = [n for n in own_nodes(fn.node) if isinstance(n, ast.Assign) and
                     isinstance(n.targets[0], ast.Name) and
                     match(ex.term(n.value), pattern(vpat)) is not None]
        if not sites and what.startswith('substore:'):
            vpat = what[len('substore:'):]
            sites = [n for n in own_nodes(fn.node) if isinstance(n, ast.Assign) and
                     isinstance(n.targets[0], ast.Subscript) and
                     match(ex.term(n.value), pattern(vpat)) is not None]
        if not sites and what.startswith('subtarget:'):
            spat = what[len('subtarget:'):]
            sites = [n for n in own_nodes(fn.node) if isinstance(n, ast.Assign) and
                     isinstance(n.targets[0], ast.Subscript) and
                     match(ex.term(n.targets[0].slice), pattern(spat)) is not None]
        if not sites and what.startswith('raise:'):
            idx = int(what[len('raise:'):])
            rs = sorted((s for s in own_nodes(fn.node) if isinstance(s, ast.Raise)),
                        key=lambda s: s.lineno)
            sites = rs[idx:idx + 1]
        if not sites:
            raise AnchorMissing('{}: no statement `{}`'.format(qname, what))
        for site in sites:
            have = ctx.guards(fn, site)
            missing = []
            for (pats, pol) in guards:
                pats = (pats,) if isinstance(pats, str) else tuple(pats)
                if not any(p == pol and match_any(t, pats) is not None for (t, p, _) in have):
                    missing.append('{}{}'.format('' if pol else 'not ', pats[0]))
            ctx.check(not missing, fn, label,
                      '{} under {}'.format(what[:50], ' and '.join(
                          ('' if pol else 'not ') + (p if isinstance(p, str) else p[0])
                          for (p, pol) in guards)[:90]),
                      '`{}` does not run under {}: {}'.format(
                          what[:60], ' and '.join(missing)[:120], label), fn=fn, node=site)


_LIKE = ('zeros_like', 'empty_like', 'ones_like', 'full_like')
_SHAPE_ONLY = ('asanyarray', 'asarray', 'array', 'atleast_1d', 'atleast_2d', 'atleast_3d',
               'reshape', 'squeeze', 'ravel', 'flatten', 'copy', 'transpose', 'expand_dims')

_DTYPE_EXAMPLE = '''
def f(x, g):
    x = np.asanyarray(x)
    x = x.reshape((-1, 2))
    out = np.zeros_like(x)
    for i in range(len(out)):
        out[i] = g(x[i])
    return out

def f2(x0, g, n):
    x0 = np.atleast_1d(x0)
    chain = np.empty((n,) + x0.shape, dtype=x0.dtype)
    chain[0] = x0
    for i in range(1, n):
        chain[i] = g(chain[i - 1])
    return chain

def ok_float(x, g):
    x = np.asanyarray(x, dtype=float)
    out = np.zeros_like(x)
    out[0] = g(x)
    return out

def ok_dtype(x, g):
    out = np.zeros_like(x, dtype=float)
    out[0] = g(x)
    return out

def ok_copy(x, mask):
    out = np.empty_like(x)
    out[mask] = x[mask]
    return out
'''


def inherited_dtype_sweep(ctx, modules=None):
    """Result buffers that inherit the dtype of a caller's array and then receive computed values.

    `buf = np.zeros_like(X)` (no dtype=) where X is a parameter that went through nothing but
    shape-only conversions (asanyarray / reshape / indexing ...) without a dtype, `buf[...] = v`
    with v not a selection of X itself, and buf returned: for an integer-typed X (a list of ints,
    an integer start point) numpy truncates v to integers on assignment, silently.
    Reported per buffer.  Returns the number of buffers examined."""
    n_seen = 0

    def shape_only_source(e, fnode, seen=frozenset()):
        """name of the parameter e is a shape-only view of, else None"""
        params = [a.arg for a in fnode.args.posonlyargs + fnode.args.args +
                  fnode.args.kwonlyargs]
        if isinstance(e, ast.Name):
            if e.id in seen:
                return e.id if e.id in params else None
            defs = [n for n in ast.walk(fnode) if isinstance(n, ast.Assign) and
                    any(isinstance(t, ast.Name) and t.id == e.id for t in n.targets)]
            other = [n for n in ast.walk(fnode)
                     if isinstance(n, (ast.AugAssign, ast.For, ast.With, ast.NamedExpr)) and
                     any(isinstance(x, ast.Name) and x.id == e.id and
                         isinstance(x.ctx, ast.Store) for x in ast.walk(n)
                         if not isinstance(n, ast.For) or x is n.target or
                         (isinstance(n.target, ast.Tuple) and x in n.target.elts))]
            if other:
                return None
            if not defs:
                return e.id if e.id in params else None
            srcs = set(shape_only_source(d.value, fnode, seen | {e.id}) for d in defs)
            if e.id in params:
                srcs.add(e.id)
            if len(srcs) == 1 and None not in srcs:
                return srcs.pop()
            return None
        if isinstance(e, ast.Subscript):
            return shape_only_source(e.value, fnode, seen)
        if isinstance(e, ast.Call):
            kw = [k.arg for k in e.keywords]
            if 'dtype' in kw:
                return None
            f = e.func
            if isinstance(f, ast.Attribute) and f.attr in _SHAPE_ONLY:
                if isinstance(f.value, ast.Name) and f.value.id in ('np', 'numpy'):
                    if len(e.args) >= 2 and f.attr in ('asanyarray', 'asarray', 'array'):
                        return None      # positional dtype
                    return shape_only_source(e.args[0], fnode, seen) if e.args else None
                return shape_only_source(f.value, fnode, seen)
        return None

    def selection_of(v, pname, fnode):
        """v only selects / copies values of the same source array"""
        return shape_only_source(v, fnode) == pname
    mods = modules if modules is not None else [
        m for m in ctx.repo.modules.values()
        if m.name.startswith('elfi') and not m.name.startswith('elfi.examples') and
        not m.name.startswith('elfi.visualization')]
    for m in mods:
        for f in m.all_functions:
            fnode = getattr(f, 'node', None)
            if fnode is None or isinstance(fnode, ast.Lambda):
                continue
            for n in own_nodes(fnode):
                if not (isinstance(n, ast.Assign) and len(n.targets) == 1 and
                        isinstance(n.targets[0], ast.Name) and isinstance(n.value, ast.Call)
                        and isinstance(n.value.func, ast.Attribute)):
                    continue
                call = n.value
                like_of = None
                if call.func.attr in _LIKE and call.args:
                    if any(k.arg == 'dtype' for k in call.keywords) or len(call.args) >= \
                            (3 if call.func.attr == 'full_like' else 2):
                        continue
                    like_of = call.args[0]
                elif call.func.attr in ('empty', 'zeros', 'ones', 'full'):
                    # np.empty(shape, dtype=X.dtype): the same inheritance, spelled out
                    dt = [k.value for k in call.keywords if k.arg == 'dtype']
                    if dt and isinstance(dt[0], ast.Attribute) and dt[0].attr == 'dtype':
                        like_of = dt[0].value
                if like_of is None:
                    continue
                buf = n.targets[0].id
                src_p = shape_only_source(like_of, fnode)
                stores = [s for s in own_nodes(fnode) if isinstance(s, ast.Assign) and
                          any(isinstance(t, ast.Subscript) and isinstance(t.value, ast.Name) and
                              t.value.id == buf for t in s.targets)]
                returned = any(isinstance(r, ast.Return) and r.value is not None and
                               any(isinstance(x, ast.Name) and x.id == buf
                                   for x in ast.walk(r.value)) for r in own_nodes(fnode))
                if not stores or not returned:
                    continue
                n_seen += 1
                computed = [s for s in stores
                            if src_p is None or not selection_of(s.value, src_p, fnode)]
                # constants (0, nan masks) are not computed values
                computed = [s for s in computed if not isinstance(s.value, ast.Constant)]
                if src_p is not None and computed:
                    ctx.bad(f, 'result buffer inherits the dtype of `{}`'.format(src_p),
                            '`{} = {}` takes the dtype of the caller\'s `{}` (only shape '
                            'conversions in between) and then receives computed values (`{}`): '
                            'for an integer-typed argument they are truncated to integers'
                            .format(buf, src(call)[:40], src_p, src(computed[0])[:50]), fn=f,
                            node=n)
                else:
                    ctx.ok(f, 'result buffer `{}` has its own dtype or only copies'.format(buf),
                           src(n)[:60], fn=f, node=n) if hasattr(ctx, 'ok') else None
    return n_seen


def inherited_dtype_obligation(ctx, module_names=None):
    """Obligation body: self-test on a positive example, then the package (or the named
    modules only)."""
    import ast as _ast
    tree = _ast.parse(_DTYPE_EXAMPLE)
    for n in _ast.walk(tree):
        for c in _ast.iter_child_nodes(n):
            c._parent = n
    fs = []
    for fn_ in tree.body:
        class _F:
            pass
        o = _F()
        o.node, o.qname, o.name = fn_, 'example:' + fn_.name, fn_.name
        fs.append(o)

    class _M:
        name = 'elfi._dtype_example'
        all_functions = fs

    class _C:
        found = []

        def bad(self, f, role, detail, fn=None, node=None):
            self.found.append(f.name)

        def ok(self, *a, **k):
            pass
    probe = _C()
    inherited_dtype_sweep(probe, modules=[_M])
    if probe.found != ['f', 'f2']:
        raise AnalysisError('dtype-inheritance sweep self-test failed: {}'.format(probe.found))
    if module_names is not None:
        mods = [ctx.repo.modules[m] for m in module_names]
        n = inherited_dtype_sweep(ctx, modules=mods)
        if n == 0:
            for m in mods:
                ctx.ok(m.name, 'no result buffer takes the dtype of an argument',
                       '{} functions scanned; positive examples matched'.format(
                           len(m.all_functions)))
        return
    n = inherited_dtype_sweep(ctx)
    if n == 0:
        nf = sum(len(m.all_functions) for m in ctx.repo.modules.values()
                 if m.name.startswith('elfi') and not m.name.startswith('elfi.examples'))
        ctx.ok('elfi', 'no returned *_like result buffer',
               '{} functions scanned; positive example matched'.format(nf))


def increment_of(stmt, by=None):
    """(name, amount expr) when stmt adds to a local name: `x += e` or `x = x + e` / `x = e + x`;
    else None.  With `by` (a number) the amount must be that constant."""
    name = amt = None
    if isinstance(stmt, ast.AugAssign) and isinstance(stmt.op, ast.Add) and \
            isinstance(stmt.target, ast.Name):
        name, amt = stmt.target.id, stmt.value
    elif isinstance(stmt, ast.Assign) and len(stmt.targets) == 1 and \
            isinstance(stmt.targets[0], ast.Name) and isinstance(stmt.value, ast.BinOp) and \
            isinstance(stmt.value.op, ast.Add):
        x = stmt.targets[0].id
        l, r = stmt.value.left, stmt.value.right
        if isinstance(l, ast.Name) and l.id == x:
            name, amt = x, r
        elif isinstance(r, ast.Name) and r.id == x:
            name, amt = x, l
    if name is None:
        return None
    if by is not None and not (isinstance(amt, ast.Constant) and amt.value == by and
                               not isinstance(amt.value, bool)):
        return None
    return name, amt


# ---------------------------------------------------------------------------------------------
# shared sweep: statistics that must not depend on the scale of their data contain no absolute
# tolerance

_TOL_CALLS = {'isclose', 'allclose'}


def absolute_tolerance_sites(fnode):
    """[(node, description)] of absolute-tolerance tests in a function body: calls of
    np.isclose / np.allclose / math.isclose (the default atol / abs_tol is an absolute number;
    an explicit `atol=0` / `abs_tol=0` makes the test relative and is not listed), and
    comparisons of an expression with a small positive float constant (0 < c <= 1e-3)."""
    out = []
    for n in ast.walk(fnode):
        if isinstance(n, ast.Call):
            f = n.func
            nm = f.attr if isinstance(f, ast.Attribute) else (f.id if isinstance(f, ast.Name)
                                                              else None)
            if nm in _TOL_CALLS:
                kw = dict((k.arg, k.value) for k in n.keywords)
                a = kw.get('atol', kw.get('abs_tol'))
                if isinstance(f, ast.Attribute) and isinstance(f.value, ast.Name) and \
                        f.value.id == 'math' and a is None:
                    continue       # math.isclose is relative by default
                if a is not None and isinstance(a, ast.Constant) and a.value == 0:
                    continue
                out.append((n, '{}(...) with an absolute tolerance'.format(nm)))
        elif isinstance(n, ast.Compare):
            for e in [n.left] + list(n.comparators):
                if isinstance(e, ast.Constant) and isinstance(e.value, float) and \
                        0 < abs(e.value) <= 1e-3:
                    out.append((n, 'comparison with the constant {!r}'.format(e.value)))
    return out


def scale_free_sweep(ctx, fns, why):
    """Every function in `fns` is free of absolute-tolerance tests.  The expected count is zero,
    so the matcher is exercised on a built-in positive example on every run."""
    probe = ast.parse('def f(v, w):\n'
                      '    if np.isclose(v, 0.):\n        return 1\n'
                      '    if abs(w) < 1e-8:\n        return 2\n'
                      '    return np.allclose(v, w, atol=0)\n').body[0]
    if len(absolute_tolerance_sites(probe)) != 2:
        raise AnalysisError('absolute-tolerance matcher does not fire on its positive example')
    for fn in fns:
        sites = absolute_tolerance_sites(fn.node)
        if not sites:
            ctx.ok(fn, 'no absolute tolerance', 'no isclose / allclose / comparison with a small '
                   'constant', fn=fn, node=fn.node)
        for (node, what) in sites:
            ctx.bad(fn, 'no absolute tolerance', '{}: {} - {}'.format(
                src(node)[:60], what, why), fn=fn, node=node)
