"""C19 - ROMC regions and posterior.

Decided: frame consistency (box / world) of sample and contains, density = indicator / volume,
lock-step of the line search, composition of the unnormalised posterior, agreement of the
serial and the parallel weight code.  Not decided: integration to one, orthonormality,
containment under rounding.
"""

import ast

from .. import AnalysisError, AnchorMissing
from ..cfg import cfg_of
from ..model import own_nodes
from ..values import pattern, match, match_any, find, contains, show, subterms
from ..domains import polarity, POS, NEG, ZERO
from .base import obligation, src, callee_name, if_branches, split_if, bind_args
from .C04 import pattern_term, returns, enclosing_loop, _inside

BB = 'elfi.methods.inference.romc:NDimBoundingBox'
RP = 'elfi.methods.posteriors:RomcPosterior'
ROMC = 'elfi.methods.inference.romc'


def _vector_contains(ctx, co):
    """The vectorised form of contains(): a single return of
    [bool(] np.all((limits[:, 0] <= P) & (P <= limits[:, 1])) [)]  (also np.logical_and, or two
    np.all joined by `and`).  -> (P, return stmt) or None when the function has another shape."""
    ex = ctx.ex(co)
    rr = [r for r in returns(co) if r.value is not None]
    if len(rr) != 1 or any(isinstance(n, (ast.For, ast.While)) for n in own_nodes(co.node)):
        return None
    t = ex.term(rr[0].value)
    if t[0] == 'call' and t[1] in (('global', 'builtins.bool'), ('global', 'bool'),
                                   ('name', 'bool')) and len(t[2]) == 1:
        t = t[2][0]
    parts = None
    m = match(t, pattern('np.all(_a & _b)')) or match(t, pattern('np.all(np.logical_and(_a, _b))'))
    if m is not None:
        parts = (m['a'], m['b'])
    elif t[0] == 'bool' and t[1] == 'and' and len(t[2]) == 2:
        ms = [match(x, pattern('np.all(_a)')) for x in t[2]]
        if all(x is not None for x in ms):
            parts = (ms[0]['a'], ms[1]['a'])
    if parts is None:
        return None
    lo = hi = None
    for part in parts:
        m1 = match(part, pattern('self.limits[:, 0] <= _p'))
        m2 = match(part, pattern('_p <= self.limits[:, 1]'))
        if m1 is not None:
            lo = m1['p']
        elif m2 is not None:
            hi = m2['p']
    if lo is None or hi is None or lo != hi:
        return None
    return lo, rr[0]


def _check_box_point(ctx, co, p, node):
    """The point compared with the limits is R^-1 (point - centre) on every path."""
    alts = p[1] if p[0] == 'phi' else (p,)
    is_pt = lambda x: x == ('param', co.params[1])
    is_c = lambda x: x == pattern_term('self.center')
    uses_inv = all(contains(a, 'np.dot(self.rotation_inv, _)') or
                   contains(a, 'self.rotation_inv.dot(_)') or
                   contains(a, 'self.rotation_inv @ _') for a in alts)
    no_rot = not any(s_ == pattern_term('self.rotation') for a in alts for s_ in subterms(a))
    ctx.check(uses_inv and no_rot, co, 'world -> box uses the inverse rotation',
              'np.dot(rotation_inv, ...)',
              'the query point is transformed with {} instead of the inverse rotation{}'
              .format('the rotation itself' if not no_rot else 'no rotation',
                      ' on some path' if len(alts) > 1 else ''), fn=co, node=node)
    pols = [(_lin_pol(a, is_pt), _lin_pol(a, is_c)) for a in alts]
    ctx.check(all(pp == POS and pc == NEG for (pp, pc) in pols), co,
              'centre subtracted in contains', 'R^-1 (point - center)',
              'the box coordinates depend on the point / the centre with polarities {} '
              '(expected + / -)'.format(pols), fn=co, node=node)



@obligation('C19-a', 'T9 T4', 'sample maps box -> world with the rotation, contains maps world -> '
            'box with its inverse', floor=6,
            necessary='a missing inverse or a centre with the wrong sign rejects the region\'s '
                      'own samples')
def c19_a(ctx):
    bb = ctx.cls(BB)
    init = ctx.own_method(bb, '__init__')
    exi = ctx.ex(init)
    st = [s for (s, t, k) in ctx.stores(init, 'self.rotation_inv') if isinstance(s, ast.Assign)]
    ok = bool(st) and match(exi.term(st[0].value), pattern('np.linalg.inv(self.rotation)')) \
        is not None
    ctx.check(ok, init, 'inverse of the stored rotation', 'rotation_inv = inv(self.rotation)',
              'rotation_inv is not the inverse of the stored rotation', fn=init,
              node=st[0] if st else init.node)
    fields = {}
    for (s, t, k) in ctx.stores(init, 'self.rotation') + ctx.stores(init, 'self.center'):
        if isinstance(s, ast.Assign):
            fields[exi.term(s.targets[0])[2]] = exi.term(s.value)
    ok = fields.get('rotation') == ('param', 'rotation') and \
        fields.get('center') == ('param', 'center')
    ctx.check(ok, init, 'rotation and centre stored as given', '', 'rotation / center are not '
              'stored as given', fn=init, node=init.node)
    co = ctx.own_method(bb, 'contains')
    ex = ctx.ex(co)
    vec = _vector_contains(ctx, co)
    if vec is not None:
        _check_box_point(ctx, co, vec[0], vec[1])
        ctx.ok(co, 'outside iff beyond a limit',
               'np.all((left <= p) & (p <= right)): inclusive limits, every dimension', fn=co,
               node=vec[1])
        _c19_a_sample(ctx, bb)
        return
    cmps = [n for n in own_nodes(co.node) if isinstance(n, ast.Compare) and
            contains(ex.term(n), 'self.limits[_][_]')]
    if not cmps:
        raise AnchorMissing('contains does not compare with the limits')
    box_pts = set()
    for n in cmps:
        t = ex.term(n)
        other = t[2] if contains(t[3], 'self.limits[_][_]') else t[3]
        if other[0] == 'sub':
            box_pts.add(other[1])
    ctx.check(len(box_pts) == 1, co, 'one transformed point compared', '',
              'the limits are compared with different points', fn=co, node=cmps[0])
    if len(box_pts) == 1:
        _check_box_point(ctx, co, next(iter(box_pts)), cmps[0])
    # limits inclusive: outside iff point < left or point > right
    outs = []
    for n in cmps:
        t = ex.term(n)
        outs.append((t[1], contains(t[2], 'self.limits[_][_]'), t))
    lo = any(op == '<' and not lim_left and match(t[3], pattern('self.limits[_][0]')) is not None
             for (op, lim_left, t) in outs)
    hi = any(op == '<' and lim_left and match(t[2], pattern('self.limits[_][1]')) is not None
             for (op, lim_left, t) in outs)
    ctx.check(lo and hi, co, 'outside iff beyond a limit', 'p < left or p > right -> outside',
              'the limit tests are not (p[i] < limits[i][0]) / (p[i] > limits[i][1])', fn=co,
              node=cmps[0])
    loops = [n for n in own_nodes(co.node) if isinstance(n, ast.For)]
    ok = bool(loops) and all(_inside(n, loops[0]) for n in cmps)
    falses = [n for n in ast.walk(loops[0]) if isinstance(n, ast.Assign) and
              ex.term(n.value) == ('const', False)] if loops else []
    ctx.check(ok and bool(falses), co, 'every dimension tested', 'inside = False when beyond',
              'contains does not test every dimension', fn=co, node=loops[0] if loops else co.node)
    _c19_a_sample(ctx, bb)


def _c19_a_sample(ctx, bb):
    sa = ctx.own_method(bb, 'sample')
    exs = ctx.ex(sa)
    rr = returns(sa)
    if len(rr) != 1:
        ctx.undecided('sample has {} returns'.format(len(rr)))
    t = exs.term(rr[0].value)
    m = match_any(t, ('np.dot(self.rotation, _b.T).T + self.center',
                      'self.center + np.dot(self.rotation, _b.T).T',
                      'np.dot(_b, self.rotation.T) + self.center'))
    ctx.check(m is not None, sa, 'box -> world uses the rotation and adds the centre',
              'np.dot(rotation, box.T).T + center',
              'samples are mapped as {} - not rotation . box + center'.format(show(t)[:100]),
              fn=sa, node=rr[0])
    un = [c for c in ctx.calls(sa, 'ss.uniform(*_)')]
    ok = False
    for c in un:
        kws = dict((k.arg, exs.term(k.value)) for k in c.keywords)
        a = [exs.term(x) for x in c.args]
        loc = kws.get('loc', a[0] if a else None)
        scale = kws.get('scale', a[1] if len(a) > 1 else None)
        if loc is not None and scale is not None and \
                match(loc, pattern('self.limits[:, 0][_i]')) is not None and \
                match(scale, pattern('(self.limits[:, 1] - self.limits[:, 0])[_i]')) is not None:
            ok = True
    ctx.check(ok, sa, 'box coordinates uniform within the limits',
              'uniform(loc=left, scale=right - left)',
              'the box coordinates are not uniform(left, right - left)', fn=sa,
              node=un[0] if un else sa.node)
    lo_ = [n for n in own_nodes(sa.node) if isinstance(n, ast.For)]
    ok = bool(lo_) and match_any(exs.term(lo_[0].iter, cfg_of(sa).by_stmt[id(lo_[0])]),
                                 ('range(self.limits[:, 0].shape[0])', 'range(self.dim)',
                                  'range(len(self.limits))')) is not None
    ctx.check(ok, sa, 'one coordinate per dimension', 'for i in range(D)',
              'not every dimension gets a coordinate', fn=sa, node=lo_[0] if lo_ else sa.node)


def _lin_pol(t, leaf):
    """Polarity through np.dot(M, .) with M fixed (linear maps keep orientation symbolically)."""
    def pol(x):
        if leaf(x):
            return POS
        if x[0] == 'call' and x[1][0] == 'global' and x[1][1] in ('numpy.dot', 'numpy.matmul') \
                and len(x[2]) == 2:
            return pol(x[2][1])
        if x[0] == 'binop' and x[1] == '@':
            return pol(x[3])
        if x[0] == 'binop' and x[1] == '+':
            a, b = pol(x[2]), pol(x[3])
            return _j(a, b)
        if x[0] == 'binop' and x[1] == '-':
            a, b = pol(x[2]), pol(x[3])
            return _j(a, _n(b))
        if x[0] == 'unary' and x[1] == '-':
            return _n(pol(x[2]))
        if x[0] in ('sub', 'attr'):
            return pol(x[1])
        return ZERO
    return pol(t)


def _n(p):
    return {POS: NEG, NEG: POS}.get(p, p)


def _j(a, b):
    if a == ZERO:
        return b
    if b == ZERO:
        return a
    return a if a == b else '±'


@obligation('C19-b', 'T4 T8', 'density = indicator / volume; volume = product of the side '
            'lengths; degenerate limits are widened outwards', floor=4,
            necessary='a sum instead of a product, or limits moved inwards, gives a density '
                      'that does not integrate to one')
def c19_b(ctx):
    bb = ctx.cls(BB)
    pdf = ctx.own_method(bb, 'pdf')
    rr = returns(pdf)
    ok = len(rr) == 1 and match(ctx.term(pdf, rr[0].value),
                                pattern('self.contains(_t) / self.volume')) is not None
    ctx.check(ok, pdf, 'pdf', 'contains(theta) / volume', 'pdf is not contains / volume', fn=pdf,
              node=rr[0] if rr else pdf.node)
    init = ctx.own_method(bb, '__init__')
    vols = [f for f in ctx.reachable([init], depth=1, may=False) if f.cls is bb and
            any(isinstance(n, ast.Call) and callee_name(n) in ('prod', 'sum', 'product')
                for n in own_nodes(f.node))]
    if not vols:
        raise AnchorMissing('volume computation not found')
    vf = vols[0]
    exv = ctx.ex(vf)
    rr = returns(vf)
    t = exv.term(rr[0].value) if rr else None
    ok = t is not None and match_any(t, ('np.prod(-self.limits[:, 0] + self.limits[:, 1])',
                                         'np.prod(self.limits[:, 1] - self.limits[:, 0])')) \
        is not None
    ctx.check(ok, vf, 'volume', 'prod(right - left)',
              'volume is {}'.format(show(t)[:80] if t else None), fn=vf,
              node=rr[0] if rr else vf.node)
    st = [s for (s, t2, k) in ctx.stores(init, 'self.volume') if isinstance(s, ast.Assign)]
    lim = [s for (s, t2, k) in ctx.stores(init, 'self.limits') if isinstance(s, ast.Assign)]
    ok = bool(st) and bool(lim) and ctx.must_precede(init, lim, st[0]) and \
        contains(ctx.term(init, st[0].value), 'self.' + vf.name + '()')
    ctx.check(ok, init, 'volume of the secured limits', 'limits secured before the volume',
              'the volume is computed before the limits are secured', fn=init,
              node=st[0] if st else init.node)
    sec = [f for f in ctx.reachable([init], depth=1, may=False) if f.cls is bb and
           any(isinstance(n, ast.AugAssign) for n in own_nodes(f.node))]
    if not sec:
        raise AnchorMissing('limit widening not found')
    sf = sec[0]
    exs = ctx.ex(sf)
    augs = [n for n in own_nodes(sf.node) if isinstance(n, ast.AugAssign)]
    left = [n for n in augs if match(exs.raw(n.target), pattern('_l[_i, 0]')) is not None]
    right = [n for n in augs if match(exs.raw(n.target), pattern('_l[_i, 1]')) is not None]
    ok = len(left) == 1 and len(right) == 1 and isinstance(left[0].op, ast.Sub) and \
        isinstance(right[0].op, ast.Add) and exs.raw(left[0].value) == exs.raw(right[0].value)
    ctx.check(ok, sf, 'limits widened outwards by the same amount',
              'left -= d, right += d', 'degenerate limits are not widened outwards '
              'symmetrically', fn=sf, node=augs[0] if augs else sf.node)
    # ... exactly when the two limits of the dimension (nearly) coincide
    for n in left + right:
        gs = [(t, pol) for (t, pol, _) in ctx.guards(sf, n)]
        close = [pol for (t, pol) in gs
                 if match_any(t, ('math.isclose(_l[_i, 0], _l[_i, 1], *_)',
                                  'math.isclose(_l[_i, 1], _l[_i, 0], *_)',
                                  'np.isclose(_l[_i, 0], _l[_i, 1], *_)',
                                  'np.isclose(_l[_i, 1], _l[_i, 0], *_)',
                                  '_l[_i, 0] == _l[_i, 1]', '_l[_i, 1] - _l[_i, 0] <= _',
                                  '_l[_i, 1] - _l[_i, 0] < _')) is not None]
        ctx.check(bool(close) and all(close), sf, 'widened exactly when the limits coincide',
                  'if isclose(left, right): widen',
                  'the limits are widened on the wrong side of the degeneracy test (a degenerate '
                  'dimension keeps zero width: volume 0, density 1 / 0)', fn=sf, node=n)
    rr = returns(sf)
    ok = bool(rr) and bool(left) and isinstance(rr[0].value, ast.Name) and \
        isinstance(left[0].target.value, ast.Name) and \
        rr[0].value.id == left[0].target.value.id
    ctx.check(ok, sf, 'widened limits returned', '', 'the widened limits are not returned',
              fn=sf, node=rr[0] if rr else sf.node)


@obligation('C19-c', 'T7 T11', 'line search advances and retracts position and offset together; '
            'the result is positive', floor=5,
            necessary='an offset out of step with the position describes a point that was never '
                      'probed')
def c19_c(ctx):
    ls = ctx.fn(ROMC + ':line_search')
    ex = ctx.ex(ls)
    f_p, th_p, vd_p = ls.params[0], ls.params[1], ls.params[2]
    augs = [n for n in own_nodes(ls.node) if isinstance(n, ast.AugAssign)]
    # role discovery: position var += step * direction
    pos = [n for n in augs if isinstance(n.target, ast.Name) and
           match_any(ex.raw(n.value), ('_e * {}'.format(vd_p), '{} * _e'.format(vd_p))) is not None]
    if len(pos) != 2:
        ctx.undecided('expected one advance and one retract of the position, found {}'.format(
            len(pos)))
    th = pos[0].target.id
    step = match_any(ex.raw(pos[0].value), ('_e * {}'.format(vd_p), '{} * _e'.format(vd_p)))['e']
    adv = [n for n in pos if isinstance(n.op, ast.Add)]
    ret = [n for n in pos if isinstance(n.op, ast.Sub)]
    offs = [n for n in augs if isinstance(n.target, ast.Name) and ex.raw(n.value) == step and
            n not in pos]
    oadv = [n for n in offs if isinstance(n.op, ast.Add)]
    oret = [n for n in offs if isinstance(n.op, ast.Sub)]
    ok = len(adv) == 1 and len(ret) == 1 and len(oadv) == 1 and len(oret) == 1 and \
        oadv[0].target.id == oret[0].target.id
    ctx.check(ok, ls, 'offset mirrors the position', 'th += s*vd with offset += s; th -= s*vd '
              'with offset -= s', 'position and offset are not advanced and retracted by the '
              'same step', fn=ls, node=augs[0] if augs else ls.node)
    if not ok:
        return
    off = oadv[0].target.id
    same_block = getattr(adv[0], '_parent', None) is getattr(oadv[0], '_parent', None) and \
        getattr(ret[0], '_parent', None) is getattr(oret[0], '_parent', None)
    ctx.check(same_block, ls, 'paired in the same block', '',
              'the position and offset updates are in different blocks (one can run without '
              'the other)', fn=ls, node=adv[0])
    wl = enclosing_loop(adv[0])
    ok = False
    if isinstance(wl, ast.While):
        wt = ex.raw(wl.test)
        parts = list(wt[2]) if wt[0] == 'bool' and wt[1] == 'and' else [wt]
        ok = any(match(p, pattern('{}({}) < eps'.format(f_p, th))) is not None for p in parts)
    ctx.check(ok, ls, 'advance while below the threshold', 'while f(th) < eps',
              'the inner loop does not advance while f(th) < eps', fn=ls, node=wl or adv[0])
    ok = enclosing_loop(ret[0]) is not wl and enclosing_loop(ret[0]) is enclosing_loop(wl) \
        if isinstance(wl, ast.While) else False
    ctx.check(ok, ls, 'one retract after each advance phase', 'retract once per refinement',
              'the retract step is not executed once after the inner loop', fn=ls, node=ret[0])
    # the last advance of a phase probed a point that may already be outside: on every path
    # from an advance to the return the retract is executed
    g = cfg_of(ls)
    ok = g.must_follow(ctx.node(ls, adv[0]), [ctx.node(ls, ret[0])]) and \
        g.must_follow(ctx.node(ls, oadv[0]), [ctx.node(ls, oret[0])])
    ctx.check(ok, ls, 'every advance phase is retracted before the result is returned',
              'no path from the advance to the return avoids the retract',
              'a path from the advancing loop to the return skips the step back: the returned '
              'offset can be a point where the objective is not below the threshold', fn=ls,
              node=ret[0])
    # non-positive offset replaced by the (positive) step
    fix = [n for n in own_nodes(ls.node) if isinstance(n, ast.Assign) and
           isinstance(n.targets[0], ast.Name) and n.targets[0].id == off and
           enclosing_loop(n) is None and ex.raw(n.value) == step]
    ok = bool(fix) and any(pol and match(t, pattern('_o <= 0')) is not None
                           for (t, pol, _) in ctx.guards(ls, fix[0]))
    ctx.check(ok, ls, 'positive result', 'if offset <= 0: offset = eta',
              'a non-positive offset is not replaced by the step', fn=ls,
              node=fix[0] if fix else ls.node)
    rr = returns(ls)
    ok = len(rr) == 1 and isinstance(rr[0].value, ast.Name) and rr[0].value.id == off
    ctx.check(ok, ls, 'offset returned', '', 'line_search does not return the offset', fn=ls,
              node=rr[0] if rr else ls.node)
    init = [n for n in own_nodes(ls.node) if isinstance(n, ast.Assign) and
            isinstance(n.targets[0], ast.Name) and n.targets[0].id == th]
    ok = bool(init) and match(ex.raw(init[0].value), pattern('{}.copy()'.format(th_p))) is not None
    ctx.check(ok, ls, 'caller\'s start point untouched', 'th = th_star.copy()',
              'the search mutates the caller\'s start point', fn=ls,
              node=init[0] if init else ls.node)
    # the advance phase is bounded: a counter in the loop test, reset before every phase and
    # incremented with every advance (an objective that never exceeds the threshold along the
    # direction must not hang the search)
    okb = False
    if isinstance(wl, ast.While):
        wt = ex.raw(wl.test)
        parts = list(wt[2]) if wt[0] == 'bool' and wt[1] == 'and' else [wt]
        cnt = None
        for p_ in parts:
            mm = match_any(p_, ('_r <= rep_lim', '_r < rep_lim', 'rep_lim >= _r', 'rep_lim > _r'))
            if mm is not None and mm['r'][0] == 'name':
                cnt = mm['r'][1]
        if cnt is not None:
            from .base import increment_of
            incs = [n for n in ast.walk(wl) if isinstance(n, ast.stmt) and
                    increment_of(n, by=1) is not None and increment_of(n, by=1)[0] == cnt]
            resets = [n for n in own_nodes(ls.node) if isinstance(n, ast.Assign) and
                      isinstance(n.targets[0], ast.Name) and n.targets[0].id == cnt and
                      ex.raw(n.value) == ('const', 0)]
            okb = len(incs) == 1 and \
                getattr(incs[0], '_parent', None) is getattr(adv[0], '_parent', None) and \
                bool(resets) and all(enclosing_loop(r) is enclosing_loop(wl) for r in resets) \
                and g.must_precede([ctx.node(ls, r) for r in resets], g.by_stmt[id(wl)])
    ctx.check(okb, ls, 'advance phase bounded by the repetition limit',
              'rep = 0; while f(th) < eps and rep <= rep_lim: ...; rep += 1',
              'the advancing loop is not bounded by a counter that is reset before the phase and '
              'incremented with every advance: the search may not return', fn=ls,
              node=wl if isinstance(wl, ast.While) else adv[0])
    # build(): negative direction negated, box row [v1, v2], centre = optimum
    rc = ctx.cls(ROMC + ':RegionConstructor')
    bd = ctx.own_method(rc, 'build')
    exb = ctx.ex(bd)
    calls = ctx.calls(bd, 'line_search(*_)')
    negs = [c for c in calls if isinstance(getattr(c, '_parent', None), ast.UnaryOp) and
            isinstance(c._parent.op, ast.USub)]
    poss = [c for c in calls if c not in negs]
    ok = len(negs) == 1 and len(poss) == 1
    if ok:
        dn = exb.term(negs[0].args[2])
        dp = exb.term(poss[0].args[2])
        ok = dn == ('unary', '-', dp) and match(dp, pattern('_r[:, _d]')) is not None
    ctx.check(ok, bd, 'left limit is minus the search along -v', 'v1 = -line_search(.., -vd, ..)',
              'the left limit is not the negated search result along the negated direction',
              fn=bd, node=calls[0] if calls else bd.node)
    apps = ctx.calls(bd, name='append')
    ok = False
    for a in apps:
        t = exb.term(a.args[0])
        if t[0] == 'list' and len(t[1]) == 2 and t[1][0][0] == 'unary' and \
                contains(t[1][0], 'line_search(*_)') and t[1][1][0] == 'call':
            ok = True
    ctx.check(ok, bd, 'limits row', '[left (negative), right (positive)]',
              'the limits row is not [-(search along -v), search along v]', fn=bd,
              node=apps[0] if apps else bd.node)
    mk = ctx.calls(bd, 'NDimBoundingBox(*_)')
    ok = bool(mk) and match(exb.term(mk[0].args[0]),
                            pattern('self._find_rotation_vector(_)')) is not None and \
        contains(exb.term(mk[0].args[1]), 'self.res.x_min')
    ctx.check(ok, bd, 'region built from rotation, optimum and limits',
              'NDimBoundingBox(rotation, theta_0, limits)',
              'the region is not built from (rotation, optimum, limits)', fn=bd,
              node=mk[0] if mk else bd.node)
    # directions are the columns of the same rotation
    if calls and mk:
        dp = exb.term(poss[0].args[2]) if poss else None
        ok = dp is not None and dp[0] == 'sub' and dp[1] == exb.term(mk[0].args[0])
        ctx.check(ok, bd, 'search directions are the rotation columns', 'vd = rotation[:, d]',
                  'the searched directions are not the columns of the region\'s rotation',
                  fn=bd, node=poss[0] if poss else bd.node)


def _unscalar(t):
    """Strip scalar conversions: float(x), x[0], np.squeeze(x), x.item(), x.squeeze()."""
    while True:
        if t[0] == 'call' and t[1] in (('global', 'builtins.float'), ('global', 'float'),
                                       ('name', 'float'), ('global', 'numpy.squeeze')) and \
                len(t[2]) == 1:
            t = t[2][0]
        elif t[0] == 'sub' and t[2][0] == 'const' and isinstance(t[2][1], int):
            t = t[1]
        elif t[0] == 'call' and t[1][0] == 'attr' and t[1][2] in ('item', 'squeeze') and \
                not t[2]:
            t = t[1][1]
        else:
            return t


@obligation('C19-d', 'T8 T13 T4', 'posterior = prior x accepted indicators (and region when '
            'surrogates are used); serial and parallel weights agree', floor=7,
            necessary='a disagreement between the two weight implementations makes results '
                      'depend on `parallelize`')
def c19_d(ctx):
    rp = ctx.cls(RP)
    sp = ctx.own_method(rp, '_pdf_unnorm_single_point') if rp.lookup('_pdf_unnorm_single_point') \
        else None
    if sp is None:
        raise AnchorMissing('single-point unnormalised pdf')
    ex = ctx.ex(sp)
    rr = returns(sp)
    t = ex.term(rr[0].value)
    m = None
    mm = match(t, pattern('_a * _b'))
    if mm is not None:
        for side in ('a', 'b'):
            if match(_unscalar(mm[side]),
                     pattern('self.prior.pdf(np.expand_dims(theta, 0))')) is not None:
                m = mm
    ctx.check(m is not None, sp, 'prior times indicator sum', 'pr * indicator_sum',
              'the unnormalised density is {}'.format(show(t)[:100]), fn=sp, node=rr[0])
    sel = [n for n in own_nodes(sp.node) if isinstance(n, ast.If) and
           if_branches(ex, n, 'self.surrogate_used') is not None]
    both = only = None
    if sel:
        _bt, _bf = if_branches(ex, sel[0], 'self.surrogate_used')
        for s in _bt:
            if isinstance(s, ast.Assign) and isinstance(s.value, ast.Call):
                tg = ctx.cg.resolve(sp, s.value)
                both = tg[0] if tg else None
        for s in _bf:
            if isinstance(s, ast.Assign) and isinstance(s.value, ast.Call):
                tg = ctx.cg.resolve(sp, s.value)
                only = tg[0] if tg else None
    ctx.check(both is not None and only is not None, sp, 'selection by surrogate_used',
              'surrogate: region and indicator; otherwise indicator', 'the indicator sum is not '
              'selected by surrogate_used', fn=sp, node=sel[0] if sel else sp.node)
    if both is None or only is None:
        return
    for (f, need_region) in ((both, True), (only, False)):
        exf = ctx.ex(f)
        ifs = [n for n in own_nodes(f.node) if isinstance(n, ast.If)]
        ok = False
        from .base import increment_of
        counts = [n for n in own_nodes(f.node) if isinstance(n, ast.stmt) and
                  increment_of(n, by=1) is not None]
        for cnt in counts:
            # the atomic conditions under which the count is incremented (nested ifs and a
            # conjunction are the same thing)
            parts = []
            for (t_, pol_, _) in ctx.guards(f, cnt):
                if pol_ and t_[0] not in ('bool', 'unary') and t_ not in parts:
                    parts.append(t_)
            n = cnt._parent if isinstance(getattr(cnt, '_parent', None), ast.If) else None
            if n is None:
                continue
            ind = [p for p in parts if match(p, pattern('self.funcs[_i](theta) <= self.eps_cutoff'))
                   is not None]
            reg = [p for p in parts if match(p, pattern('self.regions[_i].contains(theta)'))
                   is not None]
            if need_region:
                if len(ind) == 1 and len(reg) == 1 and len(parts) == 2 and \
                        match(ind[0], pattern('self.funcs[_i](theta) <= self.eps_cutoff'))['i'] \
                        == match(reg[0], pattern('self.regions[_i].contains(theta)'))['i']:
                    ok = any(increment_of(s, by=1) is not None for s in n.body)
            else:
                if len(ind) == 1 and len(parts) == 1:
                    ok = any(increment_of(s, by=1) is not None for s in n.body)
        ctx.check(ok, f, 'counted condition',
                  ('region contains and ' if need_region else '') + 'distance <= cut-off',
                  'the counted condition in {} is not the expected conjunction for the same '
                  'problem index'.format(f.name), fn=f, node=ifs[0] if ifs else f.node)
    # weights: serial fragment (in sample) and parallel worker
    sm = ctx.own_method(rp, 'sample')
    workers = [m for m in rp.methods.values() if m is not sm and
               any(isinstance(n, ast.Assign) and match(
                   ctx.ex(m).term(n.value), pattern('_r.pdf(_t)')) is not None and
                   match(ctx.ex(m).term(n.value), pattern('_r.pdf(_t)'))['r'][0] == 'item'
                   for n in own_nodes(m.node))]
    if not workers:
        raise AnchorMissing('parallel weight worker')
    wk = workers[0]
    facts = {}
    for f in (sm, wk):
        exf = ctx.ex(f)
        res = [n for n in own_nodes(f.node) if isinstance(n, ast.Assign) and
               match_any(exf.term(n.value), ('(_d < _e) * _p / _q',)) is not None]
        fact = None
        for n in res:
            m = match(exf.term(n.value), pattern('(_d < _e) * _p / _q'))
            md = match(m['d'], pattern('_f(_t)'))
            mp = match(_unscalar(m['p']), pattern('_pr.pdf(np.expand_dims(_t, 0))'))
            mq = match(m['q'], pattern('_r.pdf(_t)'))
            g = any(pol and match(t2, pattern('0 < _q')) is not None and
                    match(t2, pattern('0 < _q'))['q'] == m['q'] for (t2, pol, _) in ctx.guards(f, n))
            if md and mp and mq and md['t'] == mp['t'] == mq['t']:
                fact = {'strict': True, 'guard': g, 'point': md['t'], 'func': md['f'],
                        'region': mq['r'], 'eps': m['e']}
        facts[f] = (fact, res)
        ctx.check(fact is not None, f, 'weight = indicator x prior / region density',
                  '(dist < eps) * pr / q, all at the same point',
                  'the weight in {} is not (dist < eps) * prior(theta) / q(theta) at one point'
                  .format(f.name), fn=f, node=res[0] if res else f.node)
        if fact is not None:
            ctx.check(fact['guard'], f, 'guard q > 0', 'weight 0 when q = 0',
                      'the division is not guarded by q > 0', fn=f, node=res[0])
    fs, fw = facts[sm][0], facts[wk][0]
    if fs and fw:
        ok = fs['strict'] == fw['strict'] and fs['guard'] == fw['guard']
        ctx.check(ok, rp.qname, 'serial and parallel agree on comparison and guard', '< and q > 0',
                  'serial and parallel weight code disagree', fn=wk, node=wk.node)
        # serial: region i, function i, point theta[i, j]; eps = eps_cutoff
        ok = match(fs['func'], pattern('self.funcs[_i]')) is not None and \
            match(fs['region'], pattern('self.regions[_i]')) is not None and \
            match(fs['func'], pattern('self.funcs[_i]'))['i'] == \
            match(fs['region'], pattern('self.regions[_i]'))['i'] and \
            fs['eps'] == pattern_term('self.eps_cutoff')
        ctx.check(ok, sm, 'serial: region i with objective i and the cut-off',
                  'regions[i], funcs[i], eps_cutoff', 'the serial weights pair a region with '
                  'another problem\'s objective or another threshold', fn=sm, node=facts[sm][1][0])
        # parallel: argument tuple and unpacking agree
        exs = ctx.ex(sm)
        gens = [n for n in own_nodes(sm.node) if isinstance(n, ast.GeneratorExp) and
                isinstance(n.elt, ast.Tuple) and len(n.elt.elts) == 7]
        un = [n for n in own_nodes(wk.node) if isinstance(n, ast.Assign) and
              isinstance(n.targets[0], ast.Tuple) and len(n.targets[0].elts) == 7]
        ok = bool(gens) and bool(un)
        if ok:
            el = [ast.unparse(e) for e in gens[0].elt.elts]
            names = [e.id for e in un[0].targets[0].elts]
            roles = {'region': None, 'func': None, 'theta': None, 'eps': None, 'prior': None}
            exw = ctx.ex(wk)
            # positions used by the worker
            pos = {}
            for i, nme in enumerate(names):
                pos[nme] = i
            r_i = [i for i, e in enumerate(gens[0].elt.elts)
                   if match(exs.term(e), pattern('self.regions[_i]')) is not None]
            f_i = [i for i, e in enumerate(gens[0].elt.elts)
                   if match(exs.term(e), pattern('self.funcs[_i]')) is not None]
            e_i = [i for i, e in enumerate(gens[0].elt.elts)
                   if exs.term(e) == pattern_term('self.eps_cutoff')]
            p_i = [i for i, e in enumerate(gens[0].elt.elts)
                   if exs.term(e) == pattern_term('self.prior')]
            wr = fw['region']
            wf = fw['func']
            we = fw['eps']
            ok = len(r_i) == 1 and len(f_i) == 1 and len(e_i) == 1 and len(p_i) == 1 and \
                wr == ('item', ('param', wk.params[1]), r_i[0]) and \
                wf == ('item', ('param', wk.params[1]), f_i[0]) and \
                we == ('item', ('param', wk.params[1]), e_i[0])
        ctx.check(ok, wk, 'parallel: tuple positions agree between caller and worker',
                  '(i, theta[i], regions[i], prior, funcs[i], eps, n2)',
                  'the worker unpacks the argument tuple in another order than the caller '
                  'packs it', fn=wk, node=un[0] if un else wk.node)


@obligation('C19-e', 'T12', 'ROMC converts batch-shaped results to float only after selecting the '
            'element', floor=4,
            necessary='with the installed numpy float() of a one-element array raises TypeError: '
                      'the posterior, the weights and the deterministic objective fail for '
                      'every input')
def c19_e(ctx):
    ctx.fact('numpy >= 2.x: float(a) raises TypeError unless a.ndim == 0; ModelPrior.pdf of a '
             '(1, d) input, model.generate(batch_size=1)[node] and scikit predict return '
             'one-element arrays')
    mods = [ctx.repo.module('elfi.methods.inference.romc'),
            ctx.repo.module('elfi.methods.posteriors')]
    batch_apis = ('pdf', 'logpdf', 'predict', 'generate')
    n = 0
    for m in mods:
        fns = list(m.functions.values())
        for c in m.classes.values():
            fns += list(c.methods.values())
        for f in fns:
            for node in ast.walk(f.node):
                if not (isinstance(node, ast.Call) and isinstance(node.func, ast.Name) and
                        node.func.id == 'float' and len(node.args) == 1):
                    continue
                a = node.args[0]
                inner = a
                selected = False
                batchy = False
                hops = 0
                while True:
                    if isinstance(inner, ast.Subscript):
                        # an integer index selects an element; a string key only picks a node
                        idx = inner.slice
                        if not (isinstance(idx, ast.Constant) and isinstance(idx.value, str)) \
                                and not isinstance(idx, ast.Name):
                            selected = True
                        inner = inner.value
                        continue
                    if isinstance(inner, ast.Call) and isinstance(inner.func, ast.Attribute) and \
                            isinstance(inner.func.value, ast.Name) and \
                            inner.func.value.id in ('np', 'numpy') and \
                            inner.func.attr == 'squeeze' and inner.args:
                        selected = True
                        inner = inner.args[0]
                        continue
                    if isinstance(inner, ast.Call) and isinstance(inner.func, ast.Attribute) and \
                            inner.func.attr in ('item', 'squeeze'):
                        selected = True
                        inner = inner.func.value
                        continue
                    if isinstance(inner, ast.Name) and hops < 4:
                        # a local bound once: continue with its definition
                        defs = [k for k in ast.walk(f.node)
                                if isinstance(k, ast.Assign) and len(k.targets) == 1 and
                                isinstance(k.targets[0], ast.Name) and
                                k.targets[0].id == inner.id]
                        if len(defs) == 1:
                            inner = defs[0].value
                            hops += 1
                            continue
                    break
                if isinstance(inner, ast.Call) and isinstance(inner.func, ast.Attribute) and \
                        inner.func.attr in batch_apis:
                    batchy = True
                if not batchy:
                    continue
                n += 1
                ctx.check(selected, f, 'element selected before float()', src(a)[:60],
                          'float({}) converts the one-element array returned by a batch API: '
                          'TypeError with the installed numpy'.format(src(a)[:80]), fn=f,
                          node=node)
    if n < 4:
        ctx.undecided('expected at least 4 float() conversions of batch results in ROMC, '
                      'found {}'.format(n))


@obligation('C19-f', 'T9 T12', 'box coordinates are drawn between the left and the right limit '
            '(argument convention of the uniform generator respected)', floor=2,
            necessary='scipy takes (loc, scale) = (left, width), numpy takes (low, high) = (left, '
                      'right): the width handed to numpy as `high` draws outside the box')
def c19_f(ctx):
    ctx.fact('scipy.stats.uniform(loc, scale) is uniform on [loc, loc + scale]; '
             'RandomState.uniform(low, high) and Generator.uniform(low, high) on [low, high)')
    bb = ctx.cls(BB)
    sm = ctx.own_method(bb, 'sample')
    ex = ctx.ex(sm)

    def strip_index(t):
        # loc[i] -> loc  (per-coordinate draws)
        while t[0] == 'sub' and t[2][0] in ('elem', 'loop', 'name', 'const') or \
                (t[0] == 'sub' and t[2][0] == 'elem'):
            if match(t, pattern('self.limits[:, _]')) is not None:
                break
            t = t[1]
        return t
    left = pattern('self.limits[:, 0]')
    right = pattern('self.limits[:, 1]')

    def is_left(t):
        return match(strip_index(t), left) is not None

    def is_right(t):
        return match(strip_index(t), right) is not None

    def is_width(t):
        t = strip_index(t)
        m = match(t, pattern('_r - _l'))
        return m is not None and match(m['r'], right) is not None and \
            match(m['l'], left) is not None
    n = 0
    for c in ctx.calls(sm):
        ft = ex.term(c.func)
        kw = dict((k.arg, ex.term(k.value)) for k in c.keywords)
        a = [ex.term(x) for x in c.args]
        if ft == ('global', 'scipy.stats.uniform') or \
                match(ft, pattern('ss.uniform')) is not None:
            n += 1
            loc = kw.get('loc', a[0] if a else None)
            scale = kw.get('scale', a[1] if len(a) > 1 else None)
            ok = loc is not None and scale is not None and is_left(loc) and is_width(scale)
            ctx.check(ok, sm, 'scipy uniform: loc = left limit, scale = width', '',
                      'ss.uniform is given loc={}, scale={} (expected the left limit and the '
                      'width)'.format(show(loc)[:30] if loc else None,
                                      show(scale)[:30] if scale else None), fn=sm, node=c)
        elif ft[0] == 'attr' and ft[2] == 'uniform':
            n += 1
            low = kw.get('low', a[0] if a else None)
            high = kw.get('high', a[1] if len(a) > 1 else None)
            ok = low is not None and high is not None and is_left(low) and is_right(high)
            ctx.check(ok, sm, 'numpy uniform: low = left limit, high = right limit', '',
                      'a numpy generator\'s uniform is given low={}, high={} (expected the left '
                      'and the right limit; the width as `high` draws outside the box)'.format(
                          show(low)[:30] if low else None, show(high)[:30] if high else None),
                      fn=sm, node=c)
    if n < 1:
        raise AnchorMissing('uniform draw in NDimBoundingBox.sample')
    # all coordinates are drawn: the loop / the size runs over the number of limits
    loops = [l for l in own_nodes(sm.node) if isinstance(l, ast.For)]
    ok = True
    for l in loops:
        it = ex.term(l.iter)
        ok = ok and (contains(it, 'self.limits[:, 0].shape[0]') or
                     contains(it, 'self.limits.shape[0]') or contains(it, 'len(self.limits)') or
                     contains(it, 'self.limits'))
    ctx.check(ok, sm, 'one draw per limit row', 'range(loc.shape[0])',
              'the per-coordinate loop does not run over the rows of the limits', fn=sm,
              node=loops[0] if loops else sm.node)


@obligation('C19-g', 'T7', 'results computed by a worker pool come back in the order of their '
            'rows', floor=2,
            necessary='with completion-order collection row i of the returned densities / weights '
                      'can belong to another query point')
def c19_g(ctx):
    ctx.fact('multiprocessing.Pool.map / starmap / imap keep input order; imap_unordered and '
             'apply_async + callbacks do not')
    rp = ctx.cls(RP)
    ordered = ('map', 'starmap', 'imap', 'map_async', 'starmap_async')
    unordered = ('imap_unordered', 'apply_async', 'apply')
    n = 0
    for m in rp.methods.values():
        ex = ctx.ex(m)
        for c in ctx.calls(m):
            if not (isinstance(c.func, ast.Attribute) and
                    c.func.attr in ordered + unordered):
                continue
            base = ex.term(c.func.value)
            if not (contains(base, 'Pool(*_)') or contains(base, 'mp.Pool(*_)') or
                    contains(base, 'multiprocessing.Pool(*_)') or
                    (isinstance(c.func.value, ast.Name) and 'pool' in c.func.value.id.lower())):
                continue
            n += 1
            if c.func.attr in ordered:
                ctx.ok(m, 'ordered collection', src(c)[:60], fn=m, node=c)
                continue
            # unordered API: acceptable only if the results are put back in order
            p = getattr(c, '_parent', None)
            resorted = False
            while p is not None and not isinstance(p, ast.stmt):
                if isinstance(p, ast.Call) and isinstance(p.func, ast.Name) and \
                        p.func.id == 'sorted':
                    resorted = True
                p = getattr(p, '_parent', None)
            ctx.check(resorted, m, 'ordered collection', 'pool.map(...)',
                      '{} collects the per-row results with {} (completion order) and does not '
                      'sort them back: row i of the result can belong to another query point'
                      .format(m.name, c.func.attr), fn=m, node=c)
    if n < 2:
        ctx.undecided('expected two pool collections in RomcPosterior, found {}'.format(n))


@obligation('C19-h', 'T8 T13', 'the posterior counts region membership exactly when its distance '
            'functions are fitted models: `surrogate_used` is decided by the same flags that '
            'choose the distance functions', floor=3,
            necessary='fitted models extrapolate below the cut-off outside their own region; '
                      'without the region test those points are counted')
def c19_h(ctx):
    romc = ctx.cls(ROMC + ':ROMC')
    dp = ctx.own_method(romc, '_define_posterior')
    ex = ctx.ex(dp)
    # the flags that choose which function goes into `objectives`
    apps = [c for c in ctx.calls(dp) if isinstance(c.func, ast.Attribute) and
            c.func.attr == 'append' and isinstance(c.func.value, ast.Name)]
    rp = ctx.calls(dp, 'RomcPosterior(*_)')
    if len(rp) != 1:
        raise AnchorMissing('RomcPosterior construction in _define_posterior')
    rinit = ctx.cls(RP).lookup('__init__')
    pnames = [a.arg for a in rinit.node.args.args][1:]

    def _arg(name):
        i = pnames.index(name)
        if i < len(rp[0].args):
            return rp[0].args[i]
        for kw in rp[0].keywords:
            if kw.arg == name:
                return kw.value
        raise AnchorMissing('RomcPosterior(... {} ...) in _define_posterior'.format(name))
    a_obj, a_flag = _arg('objectives'), _arg('surrogate_used')
    obj_name = a_obj.id if isinstance(a_obj, ast.Name) else None
    chooser = {}
    for c in apps:
        if c.func.value.id != obj_name:
            continue
        what = ex.term(c.args[0])
        kind = 'local' if contains(what, '_.local_surrogates[_]') else (
            'surrogate' if contains(what, '_.surrogate') else 'objective')
        facts = []
        for (tn, pol) in cfg_of(dp).guards_of(ctx.node(dp, _stmt_c19(c))):
            if tn.kind != 'test':
                continue
            t = ex.raw(tn.ast)
            p = pol
            while t[0] == 'unary' and t[1] == 'not':
                t, p = t[2], not p
            items = list(t[2]) if t[0] == 'bool' and t[1] == 'and' and p else [t]
            for it in items:
                q = p
                while it[0] == 'unary' and it[1] == 'not':
                    it, q = it[2], not q
                if it[0] == 'name':
                    facts.append((it[1], q))
        chooser[kind] = facts
    if set(chooser) != {'local', 'surrogate', 'objective'}:
        ctx.undecided('the three choices of distance function were not found: {}'.format(
            sorted(chooser)))
    names = set(n for fs in chooser.values() for (n, _) in fs)
    ok_choice = len(names) == 2 and \
        all((n, False) in chooser['objective'] for n in names) and \
        any(q for (_, q) in chooser['local']) and any(q for (_, q) in chooser['surrogate'])
    ctx.check(ok_choice, dp, 'distance functions chosen by two flags',
              'local models | global surrogate | true objective',
              'the distance functions are not chosen by the (local, surrogate) flags', fn=dp,
              node=apps[0] if apps else dp.node)
    # surrogate_used = flag_1 or flag_2 of exactly those flags (compared as expanded values, so
    # an inlined or hoisted disjunction is the same thing)
    flag_terms = set()
    for n in own_nodes(dp.node):
        if isinstance(n, ast.If):
            for m in ast.walk(n.test):
                if isinstance(m, ast.Name) and m.id in names:
                    flag_terms.add(ex.term(m))
    v = ex.term(a_flag)
    okf = v[0] == 'bool' and v[1] == 'or' and len(v[2]) == 2 and set(v[2]) == flag_terms and \
        len(flag_terms) == 2
    ctx.check(okf, dp, 'surrogate_used = (local flag or surrogate flag)',
              'any_surrogate_used = (use_local or use_surrogate)',
              '`surrogate_used` handed to the posterior is `{}` - not the disjunction of the two '
              'flags that choose the distance functions'.format(show(v)[:90]), fn=dp,
              node=rp[0])
    # the constructor stores it unchanged (the dispatch itself is C19-c)
    exi = ctx.ex(rinit)
    st = [x for (x, t, k) in ctx.stores(rinit, 'self.surrogate_used') if isinstance(x, ast.Assign)]
    ok = len(st) == 1 and exi.term(st[0].value) == ('param', 'surrogate_used')
    ctx.check(ok, rinit, 'flag stored unchanged', 'self.surrogate_used = surrogate_used',
              'RomcPosterior does not store the surrogate_used flag it was given', fn=rinit,
              node=st[0] if st else rinit.node)


def _stmt_c19(node):
    n = node
    while n is not None and not isinstance(n, ast.stmt):
        n = getattr(n, '_parent', None)
    return n


@obligation('C19-i', 'T11 T8', 'contains() answers True exactly when no coordinate is beyond a '
            'limit: the verdict starts True, turns False under the disjunction of the two limit '
            'tests of one dimension, and is returned', floor=3,
            necessary='a negated or conjunctive limit test, or a verdict that is not returned, '
                      'rejects the region\'s own samples or accepts points outside it')
def c19_i(ctx):
    from .base import unweak
    bb = ctx.cls(BB)
    co = ctx.own_method(bb, 'contains')
    ex = ctx.ex(co)
    cfg = cfg_of(co)
    rr = returns(co)
    falls = [p for (p, lab) in cfg.ret.pred
             if not (p.kind == 'stmt' and isinstance(p.ast, ast.Return))]
    loops = [n for n in own_nodes(co.node) if isinstance(n, ast.For)]
    vec = _vector_contains(ctx, co)
    if vec is not None:
        for role in ('verdict is the conjunction over all dimensions and is returned',
                     'inside exactly when left <= p and p <= right in every dimension',
                     'every dimension is tested'):
            ctx.ok(co, role, 'return np.all((limits[:, 0] <= p) & (p <= limits[:, 1]))', fn=co,
                   node=vec[1])
        return
    if len(loops) != 1 or not rr:
        ctx.undecided('membership loop / return of contains not found')
    lo = loops[0]
    falses = [n for n in ast.walk(lo) if isinstance(n, ast.Assign) and
              isinstance(n.targets[0], ast.Name) and ex.raw(n.value) == ('const', False)]
    early_false = [r for r in rr if _inside(r, lo) and ex.raw(r.value) == ('const', False)]
    verdicts = falses or early_false
    if not verdicts:
        ctx.bad(co, 'verdict turns False beyond a limit', 'no `inside = False` in the loop',
                fn=co, node=lo)
        return
    # the initial verdict and the returned value
    if falses:
        v = falses[0].targets[0].id
        inits = [n for n in own_nodes(co.node) if isinstance(n, ast.Assign) and
                 isinstance(n.targets[0], ast.Name) and n.targets[0].id == v and
                 not _inside(n, lo)]
        ok = len(inits) == 1 and ex.raw(inits[0].value) == ('const', True) and \
            cfg.must_precede([ctx.node(co, inits[0])], cfg.by_stmt[id(lo)]) and \
            not ctx.guard_groups(co, inits[0])
        ok = ok and not falls and all(
            (ex.raw(r.value) == ('name', v) and not _inside(r, lo)) or
            (_inside(r, lo) and ex.raw(r.value) in (('name', v), ('const', False)))
            for r in rr) and any(not _inside(r, lo) for r in rr)
        ctx.check(ok, co, 'verdict starts True and is what is returned',
                  'inside = True; ...; return inside',
                  'the verdict does not start as True before the loop, or is not the value '
                  'returned on every exit', fn=co, node=inits[0] if inits else rr[0])
    else:
        ok = not falls and any((not _inside(r, lo)) and ex.raw(r.value) == ('const', True)
                               for r in rr)
        ctx.check(ok, co, 'True after all dimensions passed', 'return True after the loop',
                  'contains does not answer True when no dimension failed', fn=co, node=rr[-1])
    # the condition under which the verdict turns False: (p_i < left_i) or (p_i > right_i)
    for n in verdicts:
        good = False
        inner = set(id(x) for x in ast.walk(lo))
        groups = []
        for (tn, pol) in cfg.guards_of(ctx.node(co, n)):
            if tn.kind == 'test' and id(tn.ast) in inner:
                groups.append((ex.term(tn.ast, tn), pol))
        if len(groups) == 1:
            (t, pol) = groups[0]
            t = unweak(t)
            if pol and t[0] == 'bool' and t[1] == 'or' and len(t[2]) == 2:
                ms = []
                for part in t[2]:
                    m1 = match_any(part, ('_p[_i] < self.limits[_j][0]',
                                          'self.limits[_j][0] > _p[_i]'))
                    m2 = match_any(part, ('_p[_i] > self.limits[_j][1]',
                                          'self.limits[_j][1] < _p[_i]'))
                    if m1 is not None:
                        ms.append(('lo', m1))
                    elif m2 is not None:
                        ms.append(('hi', m2))
                good = sorted(k for (k, _) in ms) == ['hi', 'lo'] and \
                    all(m['i'] == m['j'] for (_, m) in ms) and \
                    ms[0][1]['i'] == ms[1][1]['i'] and ms[0][1]['p'] == ms[1][1]['p'] and \
                    ms[0][1]['i'][0] == 'elem'
        ctx.check(good, co, 'False exactly when a coordinate is beyond one of its own limits',
                  'if (p[i] < limits[i][0]) or (p[i] > limits[i][1]): inside = False',
                  'the verdict turns False under another condition than `p[i] < left_i or '
                  'p[i] > right_i` of one and the same dimension', fn=co, node=n)
    # an early exit from the loop only after the verdict turned False
    brs = [n for n in ast.walk(lo) if isinstance(n, ast.Break)]
    ok = all(cfg.must_precede([ctx.node(co, v_) for v_ in verdicts], ctx.node(co, b))
             for b in brs)
    ctx.check(ok, co, 'the loop is left early only with a False verdict',
              'break only after inside = False',
              'the loop over the dimensions can be left before all of them were tested with '
              'the verdict still True', fn=co, node=brs[0] if brs else lo)


@obligation('C19-j', 'T7 T11', 'the posterior\'s parallel lists stay in step: every region of every '
            'accepted problem contributes exactly one region and exactly one distance function, '
            'of the same problem (and, for local models, the same region index)', floor=4,
            necessary='the density and the weights pair regions[i] with funcs[i]: a list that '
                      'grows under another condition pairs a region with another problem\'s '
                      'distance')
def c19_j(ctx):
    import itertools
    romc = ctx.cls(ROMC + ':ROMC')
    dp = ctx.own_method(romc, '_define_posterior')
    ex = ctx.ex(dp)
    cfg = cfg_of(dp)
    rp = ctx.calls(dp, 'RomcPosterior(*_)')
    if len(rp) != 1:
        raise AnchorMissing('RomcPosterior construction in _define_posterior')
    rinit = ctx.cls(RP).lookup('__init__')
    pnames = [a.arg for a in rinit.node.args.args][1:]

    def _arg(name):
        i = pnames.index(name)
        if i < len(rp[0].args):
            return rp[0].args[i]
        for kw in rp[0].keywords:
            if kw.arg == name:
                return kw.value
        raise AnchorMissing('RomcPosterior(... {} ...)'.format(name))
    lists = {}
    for nm in ('regions', 'objectives'):
        a = _arg(nm)
        if not isinstance(a, ast.Name):
            ctx.undecided('{} is not passed as a local list'.format(nm))
        lists[nm] = a.id
    apps = dict((nm, [c for c in ctx.calls(dp) if isinstance(c.func, ast.Attribute) and
                      c.func.attr == 'append' and isinstance(c.func.value, ast.Name) and
                      c.func.value.id == v]) for (nm, v) in lists.items())
    ra, oa = apps['regions'], apps['objectives']
    if len(ra) != 1 or not oa:
        ctx.undecided('appends to the region / distance lists not found')
    lo = enclosing_loop(ra[0])
    ok = isinstance(lo, ast.For) and all(enclosing_loop(c) is lo for c in oa)
    # the region appended is the loop's own element, of the enumerated regions of one problem
    it = ex.term(lo.iter, cfg.by_stmt[id(lo)]) if isinstance(lo, ast.For) else None
    m = match(it, pattern('enumerate(_p.regions)')) if it is not None else None
    m0 = match(it, pattern('_p.regions')) if it is not None else None
    prob = (m or m0 or {}).get('p')
    rt = ex.term(ra[0].args[0])
    ok = ok and prob is not None and ((m is not None and rt[0] == 'item' and rt[2] == 1 and
                                       rt[1][0] == 'elem') or (m0 is not None and rt[0] == 'elem'))
    ctx.check(ok, dp, 'one region per region of an accepted problem',
              'for jj, region in enumerate(prob.regions): regions.append(region)',
              'the region list is not filled with every region of the problem, inside one loop '
              'with the distance functions', fn=dp, node=ra[0])
    if not ok:
        return
    # the only condition on the loop: the problem has regions (True side)
    outer = [(ex.term(tn.ast, tn), pol) for (tn, pol) in cfg.guards_of(cfg.by_stmt[id(lo)])
             if tn.kind == 'test']
    ok = len(outer) == 1 and outer[0][1] and \
        match(outer[0][0], pattern("_p.state['region']")) is not None and \
        match(outer[0][0], pattern("_p.state['region']"))['p'] == prob
    ctx.check(ok, dp, 'exactly the problems that have a region',
              "if prob.state['region']: ...",
              'the regions are not collected from exactly the problems whose region was built',
              fn=dp, node=lo)
    # inside the loop the region append is unconditional; the distance appends fire exactly once
    inner = set(id(x) for x in ast.walk(lo))

    def local_guards(node):
        out = []
        for (tn, pol) in cfg.guards_of(ctx.node(dp, _stmt_c19(node))):
            if tn.kind == 'test' and id(tn.ast) in inner:
                out.append((tn, pol))
        return out
    ctx.check(not local_guards(ra[0]), dp, 'region appended unconditionally inside the loop',
              'regions.append(region)', 'the region is appended under an extra condition', fn=dp,
              node=ra[0])
    flags = set()
    conds = []
    okf = True
    for c in oa:
        facts = {}
        for (tn, pol) in local_guards(c):
            t = ex.raw(tn.ast)
            p = pol
            while t[0] == 'unary' and t[1] == 'not':
                t, p = t[2], not p
            items = [(t, p)]
            if t[0] == 'bool' and ((t[1] == 'and' and p) or (t[1] == 'or' and not p)):
                items = [(x, p) for x in t[2]]
            elif t[0] == 'bool':
                okf = False
            for (x, q) in items:
                while x[0] == 'unary' and x[1] == 'not':
                    x, q = x[2], not q
                if x[0] != 'name':
                    okf = False
                else:
                    facts[x[1]] = q
                    flags.add(x[1])
        conds.append(facts)
    once = okf and len(flags) <= 3
    if once:
        fl = sorted(flags)
        for vals in itertools.product((False, True), repeat=len(fl)):
            env = dict(zip(fl, vals))
            fired = sum(1 for f_ in conds if all(env[k] == v for (k, v) in f_.items()))
            once = once and fired == 1
    ctx.check(once, dp, 'exactly one distance function per region, whatever the flags',
              'the conditions of the objectives.append(...) calls are exhaustive and exclusive',
              'for some setting of the flags a region gets no distance function, or two: '
              'regions[i] is then paired with the distance function of another region', fn=dp,
              node=oa[0])
    # each appended function belongs to the same problem (and region index)
    okp = True
    for c in oa:
        t = ex.term(c.args[0])
        m1 = match(t, pattern('_p.local_surrogates[_j]'))
        m2 = match(t, pattern('_p.surrogate'))
        m3 = match(t, pattern('_p.objective'))
        mm = m1 or m2 or m3
        okp = okp and mm is not None and mm['p'] == prob
        if m1 is not None:
            okp = okp and m is not None and m1['j'] == ('item', rt[1], 0)
    ctx.check(okp, dp, 'distance function of the same problem and region',
              'prob.local_surrogates[jj] | prob.surrogate | prob.objective',
              'a distance function of another problem (or another region index) is paired with '
              'the region', fn=dp, node=oa[0])


@obligation('C19-k', 'T8', 'the threshold and the search parameters the user gives to build_region '
            'are the ones the line search runs with: each travels under its own name from the '
            'keyword arguments through the region constructor to the line-search call, which '
            'searches the problem\'s own distance function from a copy of its optimum',
            floor=12,
            necessary='the region is the set the line search measured: with another threshold, '
                      'step or function the limits bound a different set, and samples inside '
                      'the box no longer have distance below the region threshold')
def c19_k(ctx):
    rc = ctx.cls(ROMC + ':RegionConstructor')
    init = ctx.own_method(rc, '__init__')
    bd = ctx.own_method(rc, 'build')
    ls = ctx.fn(ROMC + ':line_search')
    exi, exb = ctx.ex(init), ctx.ex(bd)
    # (b) constructor: field <- parameter
    field_of = {}
    for s in own_nodes(init.node):
        if isinstance(s, ast.Assign) and len(s.targets) == 1:
            t, v = exi.term(s.targets[0]), exi.term(s.value)
            if v[0] == 'param' and t[0] == 'attr' and t[1] == ('param', 'self'):
                field_of.setdefault(v[1], t[2])
    ip = [p for p in init.params[1:]]
    for p in ip:
        ctx.check(p in field_of, init, 'constructor keeps ' + p, 'self.{} = {}'.format(
            field_of.get(p), p), 'the region constructor does not keep its argument `{}`'.format(p),
            fn=init, node=init.node)
    if len(ip) < 7:
        ctx.undecided('RegionConstructor.__init__ has {} parameters, expected 7'.format(len(ip)))
        return
    p_res, p_func, p_dim, p_eps = ip[0], ip[1], ip[2], ip[3]
    # (c) build: the line-search calls
    calls = ctx.calls(bd, 'line_search(*_)')
    if len(calls) < 2:
        raise AnchorMissing('RegionConstructor.build: expected two line_search calls')
    lsp = ls.params
    ls_mutates_start = any(
        (isinstance(n, ast.AugAssign) and isinstance(n.target, ast.Name) and
         n.target.id == lsp[1]) or
        (isinstance(n, (ast.Assign, ast.AugAssign)) and any(
            isinstance(t_, ast.Subscript) and isinstance(t_.value, ast.Name) and
            t_.value.id == lsp[1]
            for t_ in (n.targets if isinstance(n, ast.Assign) else [n.target])))
        for n in own_nodes(ls.node))
    for c in calls:
        b = bind_args(c, ls, skip_self=False)
        if b is None:
            ctx.undecided('line_search call with * / ** arguments at line {}'.format(c.lineno))
            continue
        side = 'left' if isinstance(getattr(c, '_parent', None), ast.UnaryOp) else 'right'
        want = {lsp[0]: p_func, lsp[3]: p_eps}
        for q in lsp[4:]:
            want[q] = q       # K, eta, rep_lim travel under their own names
        for q, p in want.items():
            a = b.get(q)
            if a is None:
                ctx.bad(bd, '{} search: {} given'.format(side, q),
                        'line_search is called without `{}`: its default replaces the value the '
                        'user gave'.format(q), fn=bd, node=c)
                continue
            t = exb.term(a)
            okk = p in field_of and t == ('attr', ('param', 'self'), field_of[p])
            ctx.check(okk, bd, '{} search: {} is the constructor\'s {}'.format(side, q, p),
                      'self.{}'.format(field_of.get(p)),
                      'line_search receives `{}` as `{}`, not the constructor\'s `{}`'.format(
                          src(a)[:40], q, p), fn=bd, node=c)
        a = b.get(lsp[1])
        t = exb.term(a) if a is not None else None
        from_opt = t is not None and p_res in field_of and contains(
            t, 'self.{}.x_min'.format(field_of[p_res]))
        fresh = isinstance(a, ast.Call) and callee_name(a) == 'copy'
        okk = from_opt and (fresh or not ls_mutates_start)
        ctx.check(bool(okk), bd, '{} search starts from the optimum'.format(side),
                  'theta_0.copy()' if fresh else 'theta_0 (line_search works on its own copy)',
                  'the line search does not start from the optimum' if not from_opt else
                  'the line search advances its start point in place and is not given a fresh '
                  'copy of the optimum: the second search starts where the first one ended',
                  fn=bd, node=c)
    # (a) call sites of the constructor
    n_sites = 0
    for fn in ctx.repo.all_functions():
        if fn.module.name != ROMC:
            continue
        for c in ctx.calls(fn, 'RegionConstructor(*_)'):
            b = bind_args(c, init)
            if b is None:
                ctx.undecided('RegionConstructor call with * / ** arguments in ' + fn.qname)
                continue
            n_sites += 1
            ex = ctx.ex(fn)
            keys = ip[3:]
            for p in keys:
                a = b.get(p)
                if a is None:
                    ctx.bad(fn, p + ' handed on', 'build_region does not hand `{}` to the region '
                            'constructor'.format(p), fn=fn, node=c)
                    continue
                t = ex.term(a)
                own = contains(t, "kwargs['{}']".format(p)) or t == ('param', p)
                other = [o for o in keys if o != p and (
                    contains(t, "kwargs['{}']".format(o)) or t == ('param', o))]
                ctx.check(own and not other, fn, p + ' handed on under its own name',
                          "{}=kwargs['{}']".format(p, p),
                          'the constructor\'s `{}` is `{}`: not the user\'s `{}`{}'.format(
                              p, src(a)[:40], p, ' but `{}`'.format(other[0]) if other else ''),
                          fn=fn, node=c)
            a = b.get(p_func)
            t = ex.term(a) if a is not None else None
            okk = t is not None and (contains(t, 'self.objective') or contains(t, 'self.surrogate'))
            ctx.check(bool(okk), fn, 'searched function is the problem\'s distance',
                      'self.surrogate / self.objective',
                      'the region is not measured on the problem\'s own distance function',
                      fn=fn, node=c)
            a = b.get(p_res)
            okk = a is not None and ex.term(a) == pattern_term('self.result')
            ctx.check(bool(okk), fn, 'optimum is the problem\'s result', 'self.result',
                      'the region is not built around the problem\'s own optimisation result',
                      fn=fn, node=c)
    if n_sites == 0:
        raise AnchorMissing('no call of RegionConstructor in the ROMC module')
    # (d) the entry point: thresholds default to the filtering threshold only when missing, and
    #     the region arguments are the ones handed to the box builder
    er = ctx.fn(ROMC + ':ROMC.estimate_regions')
    exe = ctx.ex(er)
    pf = ('param', 'eps_filter')
    for key in ('eps_region', 'eps_cutoff'):
        pk = ('param', key)
        sts = [s for s in own_nodes(er.node) if isinstance(s, ast.Assign) and
               len(s.targets) == 1 and isinstance(s.targets[0], ast.Subscript) and
               isinstance(s.targets[0].slice, ast.Constant) and s.targets[0].slice.value == key]
        if not sts:
            raise AnchorMissing('estimate_regions does not record ' + key)
        for s in sts:
            v = exe.term(s.value)
            alts = set(v[1]) if v[0] == 'phi' else {v}
            ctx.check(pk in alts and alts <= {pk, pf}, er, key + ' recorded',
                      '{0} (or eps_filter when {0} is None)'.format(key),
                      '`{}` stores {} as {}'.format(src(s)[:50], show(v), key), fn=er, node=s)
        dfl = [s for s in own_nodes(er.node) if isinstance(s, ast.Assign) and
               len(s.targets) == 1 and isinstance(s.targets[0], ast.Name) and
               s.targets[0].id == key]
        for s in dfl:
            g = [(t, p) for (t, p, _) in ctx.guards(er, s)]
            okk = (('cmp', 'is', pk, ('const', None)), True) in g and exe.term(s.value) == pf
            ctx.check(okk, er, key + ' defaults to the filtering threshold only when missing',
                      'if {0} is None: {0} = eps_filter'.format(key),
                      '`{}` replaces a threshold the user gave'.format(src(s)[:50]), fn=er, node=s)
    def _is_region_args(e):
        t = exe.term(e)
        return ('param', 'region_args') in (t[1] if t[0] == 'phi' else (t,))
    bc = [c for c in ctx.calls(er) if isinstance(c.func, ast.Attribute) and
          isinstance(c.func.value, ast.Name) and c.func.value.id == 'self' and
          any(k.arg is None and _is_region_args(k.value) for k in c.keywords)]
    okk = bool(bc)
    ctx.check(okk, er, 'region arguments reach the box builder', '_build_boxes(**region_args)',
              'the box builder is not called with the region arguments', fn=er,
              node=bc[0] if bc else er.node)


@obligation('C19-l', 'T2', 'no result buffer takes the dtype of a caller\'s array and then receives '
            'computed values (shared sweep of C08-l, restricted to the modules this property is '
            'anchored in; `*_like(x)` and `dtype=x.dtype` allocations)', floor=1,
            necessary='region samples and weights are stored as computed (numpy truncates floats silently when they are assigned into an '
                      'integer array)')
def c19_dtype(ctx):
    from .base import inherited_dtype_obligation
    inherited_dtype_obligation(ctx, ['elfi.methods.inference.romc', 'elfi.methods.posteriors'])
