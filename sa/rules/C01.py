"""C01 - Rejection ABC returns the best draws, row-consistent.

Decided: uniform index over all output buffers, sort-then-prefix structure, comparison roles,
index arithmetic of threshold / prefix / allocation, counters, budget ceilings, definedness of
library attributes on the mandatory path.  Not decided: the merge arithmetic on values.
"""

import ast
import importlib

from .. import AnalysisError, AnchorMissing
from ..cfg import cfg_of
from ..model import own_nodes
from ..values import term_kwargs, pattern, match, find, find_all, contains, show, subterms
from .base import obligation, src, callee_name
from .C04 import pattern_term, returns, enclosing_loop, _inside

REJ = 'elfi.methods.inference.samplers:Rejection'
PI = 'elfi.methods.inference.parameter_inference:ParameterInference'
SAMPLES = "self.state['samples']"


def buffers_iter_kind(t):
    """Is term t an iteration over *all* output buffers? -> 'items'|'keys'|'values'|None"""
    for pat, kind in (("self.state['samples'].items()", 'items'),
                      ("self.state['samples'].keys()", 'keys'),
                      ("self.state['samples'].values()", 'values'),
                      ("self.state['samples']", 'keys'),
                      ("list(self.state['samples'].keys())", 'keys'),
                      ("list(self.state['samples'])", 'keys'),
                      ('self.output_names', 'keys')):
        if match(t, pattern(pat)) is not None:
            return kind
    return None


def buffer_loops(ctx, fn):
    """For-loops of fn that range over all output buffers: [(for node, kind, key term, buf term)]"""
    out = []
    ex = ctx.ex(fn)
    for n in own_nodes(fn.node):
        if isinstance(n, ast.For):
            hdr = cfg_of(fn).by_stmt[id(n)]
            it = ex.term(n.iter, hdr)
            kind = buffers_iter_kind(it)
            if kind is None:
                continue
            loop_id = '{}:{}'.format(n.iter.lineno, n.iter.col_offset)
            elem = ('elem', it, loop_id)
            if kind == 'items':
                key, buf = ('item', elem, 0), ('item', elem, 1)
            elif kind == 'keys':
                key, buf = elem, ('sub', pattern_term(SAMPLES), elem)
            else:
                key, buf = None, elem
            out.append((n, kind, key, buf, elem))
    return out


def buffer_writers(ctx, cls):
    """Methods of the Rejection family that write rows of the sample buffers."""
    upd = ctx.own_method(cls, 'update')
    ext = ctx.own_method(cls, 'extract_result')
    fs = []
    for f in ctx.reachable([upd, ext], depth=3, may=False):
        if f.cls is None or not (f.cls is cls or cls.is_subclass_of(f.cls)
                                 or f.cls.is_subclass_of(cls)):
            continue
        if buffer_loops(ctx, f) or ctx.stores(f, SAMPLES + '[_]') or \
                ctx.stores(f, SAMPLES + '[_][_]'):
            fs.append(f)
    return fs


def depends_on_elem(t, elem):
    return elem in set(subterms(t))


@obligation('C01-a', 'T7', 'one index / permutation is applied to every output buffer', floor=4,
            necessary='otherwise row i of two outputs comes from different draws')
def c01_a(ctx):
    cls = ctx.cls(REJ)
    writers = buffer_writers(ctx, cls)
    if len(writers) < 3:
        ctx.undecided('expected >= 3 buffer-writing methods, found {}'.format(
            [f.name for f in writers]))
    n_sites = 0
    for f in writers:
        ex = ctx.ex(f)
        loops = buffer_loops(ctx, f)
        for (lo, kind, key, buf, elem) in loops:
            perms = []
            excluded = None
            for n in ast.walk(lo):
                if not isinstance(n, (ast.Assign, ast.AugAssign)):
                    continue
                targets = n.targets if isinstance(n, ast.Assign) else [n.target]
                for tg in targets:
                    if not isinstance(tg, ast.Subscript):
                        continue
                    tt = ex.term(tg)
                    base = tt[1]
                    # write into a row range of a buffer:  buf[idx] = ...
                    if base == buf:
                        idx = tt[2]
                        n_sites += 1
                        inv = not depends_on_elem(idx, elem)
                        ctx.check(inv, f, 'target index is the same for all buffers',
                                  '`{}` index {} is loop-invariant'.format(src(tg), show(idx)[:60]),
                                  'the row index {} of `{}` depends on the output being '
                                  'written'.format(show(idx)[:80], src(tg)), fn=f, node=n)
                        v = ex.term(n.value)
                        # allowed dependence on the member: the buffer itself, or batch[key]
                        okv = True
                        sel = None
                        for s in subterms(v):
                            if s[0] == 'sub' and (s[1] == buf or (
                                    key is not None and s[1][0] == 'sub' and s[1][2] == key)):
                                sel = s[2]
                                if depends_on_elem(s[2], elem):
                                    okv = False
                        ctx.check(okv, f, 'source index is the same for all buffers',
                                  'rows selected by {}'.format(show(sel)[:80] if sel else 'n/a'),
                                  'the rows copied into `{}` are selected by an index that '
                                  'depends on the output'.format(src(tg)), fn=f, node=n)
                        if sel is not None and v[0] == 'sub' and v[1] == buf:
                            perms.append((n, sel, idx))
                    # collecting the result:  out[key] = buf[idx]
                    elif key is not None and tt[2] == key and base != buf:
                        v = ex.term(n.value)
                        if v[0] == 'sub' and v[1] == buf:
                            n_sites += 1
                            inv = not depends_on_elem(v[2], elem)
                            ctx.check(inv, f, 'result prefix is the same for all outputs',
                                      'outputs[k] = buffer[{}]'.format(show(v[2])[:60]),
                                      'the slice {} taken from each buffer depends on the output'
                                      .format(show(v[2])[:60]), fn=f, node=n)
                        elif v[0] == 'call' or v[0] == 'binop':
                            pass   # allocation
                        else:
                            pass
            # a member that is special-cased inside the loop
            for n in ast.walk(lo):
                if isinstance(n, ast.If):
                    t = ex.term(n.test)
                    for p in ('_k != _x', '_k == _x'):
                        m = match(t, pattern(p))
                        if m is not None and key is not None and key in (m['k'], m['x']):
                            excluded = (n, m['x'] if m['k'] == key else m['k'], p)
            if excluded is not None and perms:
                (ifn, member, p) = excluded
                # the excluded member must be given the same permutation of its own values
                st = [(s, t, k) for (s, t, k) in ctx.stores(f, SAMPLES + '[_]')
                      if k == 'assign' and not _inside(s, lo) and ex.term(t.slice) == member]
                P = perms[0][1]
                if not st:
                    ctx.bad(f, 'special-cased buffer',
                            'buffer {} is skipped by the loop that permutes the others and is '
                            'not rewritten'.format(show(member)), fn=f, node=ifn)
                for (s, t, k) in st:
                    n_sites += 1
                    v = ex.term(s.value)
                    m = match(P, pattern('np.argsort(_k)'))
                    okv = False
                    if m is not None:
                        K = m['k']
                        if v == ('sub', K, P) or match(v, pattern('np.sort(_k)')) == {'k': K} or \
                                match(v, pattern('np.take(_k, _p)')) == {'k': K, 'p': P}:
                            okv = True
                    ctx.check(okv, f, 'special-cased buffer is permuted like the others',
                              '{} = key[argsort(key)]'.format(src(t)),
                              'the other buffers are permuted by {} but `{}` receives {} - rows '
                              'are misaligned'.format(show(P)[:50], src(t), show(v)[:80]),
                              fn=f, node=s)
    # loops that rewrite buffer rows but do not range over all buffers
    for f in ctx.reachable([ctx.own_method(cls, 'update'), ctx.own_method(cls, 'extract_result')],
                           depth=3, may=False):
        if f.cls is None or not cls.is_subclass_of(f.cls):
            continue
        ex = ctx.ex(f)
        for lo in [n for n in own_nodes(f.node) if isinstance(n, ast.For)]:
            it = ex.term(lo.iter, cfg_of(f).by_stmt[id(lo)])
            if buffers_iter_kind(it) is not None:
                continue
            for n in ast.walk(lo):
                if isinstance(n, ast.Assign) and isinstance(n.targets[0], ast.Subscript):
                    tt = ex.term(n.targets[0])
                    v = ex.term(n.value)
                    if tt[1][0] == 'sub' and tt[1][1] == pattern_term(SAMPLES) and \
                            tt[1][2][0] in ('elem', 'item') and v[0] == 'sub' and v[1] == tt[1]:
                        n_sites += 1
                        ctx.bad(f, 'permutation applied to a subset of the buffers',
                                'rows of the buffers are rewritten in a loop over {} which does '
                                'not range over all outputs: the other outputs keep the old row '
                                'order'.format(show(it)[:80]), fn=f, node=n)
    if n_sites < 4:
        ctx.undecided('only {} buffer write sites recognised'.format(n_sites))


def _merge_fn(ctx, cls):
    """The function reachable from update() that copies batch rows into the buffers."""
    upd = ctx.own_method(cls, 'update')
    fs = []
    for f in ctx.reachable([upd], depth=2, may=False):
        if f.cls is None or not cls.is_subclass_of(f.cls):
            continue
        for (lo, kind, key, buf, elem) in buffer_loops(ctx, f):
            for n in ast.walk(lo):
                if isinstance(n, ast.Assign) and contains(ctx.ex(f).term(n.value), 'batch[_]') \
                        and any(isinstance(tg, ast.Subscript) and ctx.ex(f).term(tg)[1] == buf
                                for tg in n.targets):
                    if f not in fs:
                        fs.append(f)
    if not fs:
        raise AnchorMissing('no function reachable from Rejection.update copies batch rows into '
                            'the sample buffers')
    return fs


@obligation('C01-b', 'T1 T3 T5 T11', 'accepted rows go to the tail, all buffers are sorted '
            'ascending by the last discrepancy column, the result is the prefix', floor=6,
            necessary='without the sort (or with a descending / first-column key) the prefix is '
                      'not the smallest discrepancies')
def c01_b(ctx):
    cls = ctx.cls(REJ)
    ctx.fact('numpy.argsort sorts ascending')
    ctx.fact('v[-0:] denotes the whole array, so a tail write needs k > 0')
    for f in _merge_fn(ctx, cls):
        ex = ctx.ex(f)
        cfg = cfg_of(f)
        tails, perms = [], []
        for (lo, kind, key, buf, elem) in buffer_loops(ctx, f):
            for n in ast.walk(lo):
                if not isinstance(n, ast.Assign):
                    continue
                for tg in n.targets:
                    if isinstance(tg, ast.Subscript) and ex.term(tg)[1] == buf:
                        v = ex.term(n.value)
                        idx = ex.term(tg)[2]
                        if contains(v, 'batch[_]'):
                            tails.append((n, idx, v, lo))
                        elif v[0] == 'sub' and v[1] == buf:
                            perms.append((n, idx, v[2], lo))
        if not tails:
            raise AnchorMissing('no tail write in ' + f.qname)
        for (n, idx, v, lo) in tails:
            # v[-k:]  with k = number of accepted rows
            m = match(idx, pattern('slice(-_k, None, None)')) if False else None
            okk = idx[0] == 'slice' and idx[2] == ('const', None) and idx[3] == ('const', None) \
                and idx[1][0] == 'unary' and idx[1][1] == '-'
            k = idx[1][2] if okk else None
            ctx.check(okk, f, 'tail write', 'rows written to [-k:]',
                      'accepted rows are written to {} instead of the tail [-k:]'.format(
                          show(idx)), fn=f, node=n)
            if okk:
                # k is the number of selected rows: batch_size, or the count of the mask
                alts = k[1] if k[0] == 'phi' else (k,)
                sel = None
                for s in subterms(v):
                    if s[0] == 'sub' and s[1][0] == 'sub' and contains(s[1], 'batch[_]'):
                        sel = s[2]
                okc = all(a == pattern_term('self.batch_size') or
                          match(a, pattern('np.sum(_)')) is not None or
                          match(a, pattern('np.count_nonzero(_)')) is not None or
                          match(a, pattern('_.sum()')) is not None for a in alts)
                ctx.check(okc, f, 'tail length is the number of accepted rows',
                          'k = {}'.format(show(k)[:80]),
                          'tail length {} is not the number of accepted rows'.format(
                              show(k)[:80]), fn=f, node=n)
                # guard k > 0
                g = False
                for (tt, pol, tast) in ctx.guards(f, lo):
                    if pol and (match(tt, pattern('0 < _k')) is not None or
                                match(tt, pattern('1 <= _k')) is not None or
                                match(tt, pattern('_k != 0')) is not None):
                        g = True
                ctx.check(g, f, 'tail write guarded by k > 0', 'under `k > 0`',
                          'the tail write `v[-k:] = ...` is not guarded by k > 0 (k = 0 would '
                          'overwrite the whole buffer)', fn=f, node=n)
        if not perms:
            ctx.bad(f, 'sort after merge', 'the buffers are never permuted after the tail write',
                    fn=f, node=tails[0][0])
        for (n, idx, P, lo) in perms:
            whole = idx == ('slice', ('const', None), ('const', None), ('const', None))
            ctx.check(whole, f, 'permutation rewrites the whole buffer', 'v[:] = v[P]',
                      'the permutation is written to {} not the whole buffer'.format(show(idx)),
                      fn=f, node=n)
            m = match(P, pattern('np.argsort(_k)'))
            okp = m is not None and P[0] == 'call' and not P[3]
            ctx.check(okp, f, 'ascending argsort', 'P = np.argsort(key)',
                      'the permutation {} is not a plain ascending argsort'.format(show(P)[:80]),
                      fn=f, node=n)
            if okp:
                K = m['k']
                base_ok = contains(K, SAMPLES + '[self.discrepancy_name]')
                last = match(K, pattern('np.atleast_2d(np.transpose(_b))[-1]'))
                plain = K == pattern_term(SAMPLES + '[self.discrepancy_name]')
                neg = any(s[0] == 'unary' and s[1] == '-' and s[2][0] != 'const'
                          for s in subterms(K)) or contains(K, '_[::-1]')
                ctx.check(base_ok and (last is not None or plain) and not neg, f,
                          'sort key is the last discrepancy column',
                          'key = atleast_2d(transpose(samples[discrepancy]))[-1]',
                          'sort key {} is not the (last column of the) stored discrepancies, '
                          'ascending'.format(show(K)[:100]), fn=f, node=n)
            for (tn, _, _, tlo) in tails:
                ok = cfg.must_follow(cfg.by_stmt[id(tlo)], [cfg.by_stmt[id(lo)]]) and \
                    cfg.must_pass([cfg.by_stmt[id(lo)]])
                ctx.check(ok, f, 'sort follows the tail write on every path',
                          'permutation loop after the tail write',
                          'a path returns after the tail write without re-sorting the buffers',
                          fn=f, node=n)
    # prefix in extract_result
    ext = ctx.own_method(cls, 'extract_result')
    ex = ctx.ex(ext)
    n_pref = 0
    for (lo, kind, key, buf, elem) in buffer_loops(ctx, ext):
        for n in ast.walk(lo):
            if isinstance(n, ast.Assign):
                v = ex.term(n.value)
                if v[0] == 'sub' and v[1] == buf:
                    n_pref += 1
                    want = ('slice', ('const', None), pattern_term("self.objective['n_samples']"),
                            ('const', None))
                    ctx.check(v[2] == want, ext, 'result is the prefix [:n_samples]',
                              "v[:objective['n_samples']]",
                              'the result slice is {} instead of [:n_samples]'.format(
                                  show(v[2])), fn=ext, node=n)
    if n_pref == 0:
        ctx.bad(ext, 'result is the prefix [:n_samples]',
                'extract_result does not slice every buffer', fn=ext, node=ext.node)
    # allocation: n_samples + batch_size rows, discrepancies start at +inf
    upd = ctx.own_method(cls, 'update')
    allocs = []
    for f in ctx.reachable([upd], depth=2, may=False):
        if f.cls is None or not cls.is_subclass_of(f.cls):
            continue
        for (s, t, k) in ctx.stores(f, SAMPLES):
            if k == 'assign' and ctx.term(f, s.value) != ('const', None):
                allocs.append((f, s))
    if not allocs:
        raise AnchorMissing('sample buffers are never allocated')
    for (f, s) in allocs:
        ex = ctx.ex(f)
        shapes = []
        for n in own_nodes(f.node):
            if isinstance(n, ast.Call) and callee_name(n) in ('ones', 'empty', 'zeros', 'full'):
                if n.args:
                    shapes.append((n, ex.term(n.args[0])))
        if not shapes:
            ctx.undecided('no buffer allocation call found in ' + f.qname)
        for (n, sh) in shapes:
            first = None
            if sh[0] == 'binop' and sh[1] == '+' and sh[2][0] == 'tuple' and len(sh[2][1]) == 1:
                first = sh[2][1][0]
            ok = first is not None and (
                match(first, pattern("self.objective['n_samples'] + self.batch_size")) is not None
                or match(first, pattern("self.batch_size + self.objective['n_samples']"))
                is not None)
            ctx.check(ok, f, 'buffer rows = n_samples + batch_size',
                      'rows = n_samples + batch_size',
                      'buffers have {} rows: the tail (<= batch_size rows) can overlap the kept '
                      'prefix'.format(show(first)[:80] if first else show(sh)[:80]), fn=f, node=n)
        # unfilled rows of the discrepancy buffer sort strictly after every simulated draw
        ctx.fact('numpy sorts nan after +inf (all sort kinds); +inf placeholders tie with simulated '
                 'draws whose discrepancy is +inf')
        init = None
        for n in own_nodes(f.node):
            if isinstance(n, ast.Assign):
                for (tt, pol, tast) in ctx.guards(f, n):
                    if pol and match(tt, pattern('_n == self.discrepancy_name')) is not None \
                            and isinstance(n.targets[0], ast.Subscript):
                        init = n
        v = ex.term(init.value) if init is not None else None
        is_nan = v is not None and (contains(v, 'np.nan') or contains(v, "float('nan')") or
                                    contains(v, 'math.nan'))
        is_inf = v is not None and contains(v, 'np.inf') and not contains(v, '-np.inf')
        # the placeholder must survive as nan: np.full / fill with the batch's dtype casts it (an
        # integer discrepancy turns nan into INT_MIN, which sorts first)
        cast = False
        if v is not None:
            for sub in subterms(v):
                if sub[0] == 'call' and sub[1] in (('global', 'numpy.full'),
                                                   ('global', 'numpy.full_like')):
                    kw_ = dict(sub[3])
                    dt_ = kw_.get('dtype', sub[2][2] if len(sub[2]) > 2 else None)
                    if sub[1][1].endswith('full_like') and dt_ is None:
                        cast = True
                    if dt_ is not None and dt_ not in (('name', 'float'),
                                                       ('global', 'builtins.float'),
                                                       ('global', 'numpy.float64'),
                                                       ('const', 'float64'), ('const', 'float')):
                        cast = True
        ctx.check(not cast, f, 'placeholder value is not cast to the discrepancy\'s dtype',
                  'np.ones(shape, dtype) * np.nan (promotes to float)',
                  'the placeholder is written into an array of the batch\'s dtype ({}): for an '
                  'integer discrepancy nan / inf become INT_MIN and the unfilled rows sort first'
                  .format(src(init.value)[:50] if init is not None else None), fn=f,
                  node=init if init is not None else s)
        ctx.check(is_nan and not is_inf, f, 'unfilled rows sort after every simulated draw',
                  'discrepancy buffer starts at nan',
                  'the discrepancy buffer is initialised to {}: '.format(
                      src(init.value)[:50] if init is not None else None) +
                  ('unfilled rows tie with simulated draws of infinite discrepancy and can be '
                   'returned in their place (uninitialised parameter values)' if is_inf else
                   'unfilled rows can enter the returned prefix'), fn=f,
                  node=init if init is not None else s)


@obligation('C01-c', 'T6 T13', 'a draw is accepted iff discrepancy <= threshold', floor=2,
            necessary='a strict comparison drops draws that equal the threshold')
def c01_c(ctx):
    cls = ctx.cls(REJ)
    upd = ctx.own_method(cls, 'update')
    sites = []
    for f in ctx.reachable([upd], depth=2, may=False):
        if f.cls is None or not cls.is_subclass_of(f.cls):
            continue
        ex = ctx.ex(f)
        for n in own_nodes(f.node):
            if isinstance(n, ast.Compare):
                t = ex.term(n)
                if t[0] != 'cmp' or t[1] not in ('<', '<=', '==', '!='):
                    continue
                l, r = t[2], t[3]
                is_d = lambda x: contains(x, '_[self.discrepancy_name]')
                is_t = lambda x: contains(x, "self.objective['threshold']")
                if (is_d(l) and is_t(r)) or (is_t(l) and is_d(r)):
                    sites.append((f, n, t, is_d(l)))
    if len(sites) < 2:
        ctx.undecided('expected 2 discrepancy/threshold comparisons, found {}'.format(len(sites)))
    for (f, n, t, d_left) in sites:
        ok = t[1] == '<=' and d_left
        ctx.check(ok, f, 'acceptance comparison', 'discrepancy <= threshold',
                  'acceptance uses `{}` instead of discrepancy <= threshold'.format(src(n)),
                  fn=f, node=n)
        # the comparison decides acceptance exactly when a threshold was given
        st = n
        while not isinstance(st, ast.stmt):
            st = st._parent
        ex = ctx.ex(f)
        gs = ctx.guards(f, st)
        given = any((not pol) and match(g, pattern("self.objective['threshold'] is None"))
                    is not None for (g, pol, _) in gs) or \
            any(pol and match(g, pattern("self.objective['threshold'] is not None")) is not None
                for (g, pol, _) in gs)
        absent = any(pol and match(g, pattern("self.objective['threshold'] is None")) is not None
                     for (g, pol, _) in gs)
        early = any((not pol) and match(g, pattern("self.objective['threshold'] is None"))
                    is not None for (g, pol, _) in gs)
        ctx.check((given or early) and not absent, f,
                  'the threshold test is applied exactly when a threshold was given',
                  'under `threshold is not None`',
                  'the comparison with the threshold is made under the condition that no '
                  'threshold was given (and skipped when one was): draws above the threshold are '
                  'accepted', fn=f, node=n)
    # without a threshold every row of the batch is taken
    for f in _merge_fn(ctx, cls):
        ex = ctx.ex(f)
        alls = [s_ for s_ in own_nodes(f.node) if isinstance(s_, ast.Assign) and
                match(ex.raw(s_.value), pattern('slice(None, None)')) is not None]
        for s_ in alls:
            ok = any(pol and match(g, pattern("self.objective['threshold'] is None")) is not None
                     for (g, pol, _) in ctx.guards(f, s_))
            ctx.check(ok, f, 'all rows taken only when no threshold was given',
                      'accepted = slice(None, None) under `threshold is None`',
                      'the whole batch is accepted although a threshold was given', fn=f, node=s_)


@obligation('C01-d', 'T5', 'the reported threshold is the largest returned discrepancy', floor=1,
            necessary='another index reports a discrepancy outside the returned rows')
def c01_d(ctx):
    cls = ctx.cls(REJ)
    upd = ctx.own_method(cls, 'update')
    ext = ctx.own_method(cls, 'extract_result')
    sites = []
    for f in ctx.reachable([upd, ext], depth=3, may=False):
        if f.cls is None or not cls.is_subclass_of(f.cls):
            continue
        for (s, t, k) in ctx.stores(f, "self.state['threshold']"):
            if k == 'assign':
                sites.append((f, s))
    if not sites:
        raise AnchorMissing("state['threshold'] is never updated on the update path")
    for (f, s) in sites:
        v = ctx.term(f, s.value)
        want = pattern(SAMPLES + "[self.discrepancy_name][self.objective['n_samples'] - 1]")
        ctx.check(match(v, want) is not None, f, 'threshold index',
                  "samples[discrepancy][n_samples - 1]",
                  'threshold is read at {} instead of row n_samples - 1'.format(show(v)[:100]),
                  fn=f, node=s)
        # computed after the merge (sort) on the update path
    for m in _merge_fn(ctx, cls):
        calls_merge = ctx.calls(upd, resolved_to=m)
        metas = [c for c in ctx.calls(upd)
                 if any(t in [f for (f, s) in sites] for t in ctx.cg.resolve(upd, c))]
        if calls_merge and metas:
            ok = all(ctx.must_precede(upd, calls_merge, mc) for mc in metas)
            ctx.check(ok, upd, 'threshold read after the merge', 'merge precedes the meta update',
                      'the threshold is read before the batch is merged and sorted', fn=upd,
                      node=metas[0])
        ok = bool(calls_merge) and cfg_of(upd).must_pass([ctx.node(upd, c) for c in calls_merge])
        ctx.check(ok, upd, 'every batch is merged', 'merge on every path of update',
                  'update can return without merging the batch into the sample', fn=upd,
                  node=calls_merge[0] if calls_merge else upd.node)
        ok = bool(metas) and cfg_of(upd).must_pass([ctx.node(upd, c) for c in metas])
        ctx.check(ok, upd, 'threshold refreshed after every batch',
                  'meta update on every path of update',
                  "update can return without refreshing state['threshold']", fn=upd,
                  node=metas[0] if metas else upd.node)


@obligation('C01-e', 'T1 T2', 'n_sim = batch_size x consumed batches', floor=3,
            necessary='a skipped or doubled counter update misreports n_sim')
def c01_e(ctx):
    cls = ctx.cls(REJ)
    pi = ctx.cls(PI)
    upd = ctx.own_method(cls, 'update')
    base = ctx.own_method(pi, 'update')
    sup = ctx.calls(upd, resolved_to=base)
    cfg = cfg_of(upd)
    ok = len(sup) == 1 and enclosing_loop(sup[0]) is None and cfg.must_pass([ctx.node(upd, sup[0])])
    if ok:
        a = [ctx.term(upd, x) for x in sup[0].args]
        ok = a == [('param', upd.params[1]), ('param', upd.params[2])]
    ctx.check(ok, upd, 'base update exactly once',
              'super().update(batch, batch_index) once on every path',
              'the counter update of the base class is not reached exactly once per batch',
              fn=upd, node=sup[0] if sup else upd.node)
    # other writers of the counters in the Rejection family
    n = 0
    for c in [cls] + [k for k in cls.mro()[1:] if k is not pi]:
        for m in c.methods.values():
            for key in ('n_sim', 'n_batches'):
                for (s, t, k) in ctx.stores(m, "self.state['{}']".format(key)):
                    n += 1
                    ctx.bad(m, 'foreign counter write',
                            "{} also writes state['{}']".format(m.name, key), fn=m, node=s)
    # reset in set_objective: both counters start at 0
    so = ctx.own_method(cls, 'set_objective')
    st = [s for (s, t, k) in ctx.stores(so, 'self.state') if k == 'assign']
    ok = False
    if st:
        v = ctx.term(so, st[0].value)
        kws = term_kwargs(v)
        ok = kws.get('n_sim') == ('const', 0) and kws.get('n_batches') == ('const', 0)
    ctx.check(ok, so, 'counters reset', 'n_sim = 0 and n_batches = 0 when an objective is set',
              'set_objective does not restart both counters from 0', fn=so,
              node=st[0] if st else so.node)
    # reported n_sim comes from the state counter
    erk = ctx.own_method(cls, '_extract_result_kwargs') if cls.lookup('_extract_result_kwargs') \
        else None
    if erk is not None:
        base_erk = ctx.own_method(pi, '_extract_result_kwargs')
        rr = returns(base_erk)
        ok = False
        if rr:
            v = ctx.term(base_erk, rr[0].value)
            if v[0] == 'dict':
                d = dict((k[1] if k[0] == 'const' else None, val) for (k, val) in v[1])
                ok = d.get('n_sim') == pattern_term("self.state['n_sim']") and \
                    d.get('n_batches') == pattern_term("self.state['n_batches']")
        ctx.check(ok, base_erk, 'reported counters', "n_sim = state['n_sim']",
                  'the reported n_sim / n_batches are not the state counters', fn=base_erk,
                  node=rr[0] if rr else base_erk.node)


@obligation('C01-f', 'T5 T11 T6', 'a simulation budget consumes exactly ceil(budget / batch_size) '
            'batches', floor=4,
            necessary='floor instead of ceil, or re-estimating a budget objective, changes the '
                      'number of consumed batches')
def c01_f(ctx):
    cls = ctx.cls(REJ)
    so = ctx.own_method(cls, 'set_objective')
    ex = ctx.ex(so)
    # objective n_batches value
    ob = [s for (s, t, k) in ctx.stores(so, 'self.objective') if k == 'assign']
    fresh = bool(ob) and cfg_of(so).must_pass([ctx.node(so, s) for s in ob])
    ctx.check(fresh, so, 'objective re-created for every call',
              'self.objective = dict(...) on every path',
              'set_objective does not build a fresh objective: entries of an earlier call '
              '(e.g. a threshold) survive into a later budget run', fn=so,
              node=ob[0] if ob else so.node)
    if not ob:
        return
    v = ctx.term(so, ob[0].value)
    kws = term_kwargs(v)
    nb = kws.get('n_batches')
    if nb is None:
        ctx.undecided('objective has no n_batches entry')
    alts = nb[1] if nb[0] == 'phi' else (nb,)
    budget_alts = [a for a in alts if contains(a, 'ceil(_)')]
    ctx.check(bool(budget_alts), so, 'budget batches', 'n_batches = ceil(n_sim / batch_size)',
              'no ceil() in the budget objective: {}'.format(show(nb)[:120]), fn=so, node=ob[0])
    for a in budget_alts:
        m = match(a, pattern('ceil(_n / self.batch_size)'))
        ok = m is not None
        ctx.check(ok, so, 'ceil(n_sim / batch_size)', show(a)[:100],
                  'budget objective is {} instead of ceil(n_sim / batch_size)'.format(
                      show(a)[:100]), fn=so, node=ob[0])
        if ok:
            nsim = m['n']
            nalts = nsim[1] if nsim[0] == 'phi' else (nsim,)
            okq = True
            for na in nalts:
                if na == ('param', 'n_sim'):
                    continue
                if match(na, pattern('ceil(n_samples / _q)')) is not None:
                    continue
                okq = False
            ctx.check(okq, so, 'quantile budget', 'n_sim = ceil(n_samples / quantile)',
                      'n_sim is derived as {} instead of ceil(n_samples / quantile)'.format(
                          show(nsim)[:100]), fn=so, node=ob[0])
    ctx.check(kws.get('n_samples') == ('param', 'n_samples') and
              _threshold_alt_ok(kws.get('threshold')), so, 'objective carries the request',
              'n_samples and threshold stored as given',
              'objective does not store n_samples / threshold as given', fn=so, node=ob[0])
    # budget objectives are never re-estimated
    upd = ctx.own_method(cls, 'update')
    for f in ctx.reachable([upd], depth=2, may=False):
        if f.cls is None or not cls.is_subclass_of(f.cls):
            continue
        for (s, t, k) in ctx.stores(f, "self.objective['n_batches']"):
            g = False
            for (tt, pol, tast) in ctx.guards(f, s):
                if pol is False and match(tt, pattern("self.objective['threshold'] is None")) \
                        is not None:
                    g = True
                if pol is True and match(tt, pattern("self.objective['threshold'] is not None")) \
                        is not None:
                    g = True
            ctx.check(g, f, 'budget objective is not re-estimated',
                      'n_batches rewritten only when a threshold objective is set',
                      "objective['n_batches'] is rewritten although no threshold was given: a "
                      'budget run would not consume exactly ceil(budget / batch_size) batches',
                      fn=f, node=s)
    # a threshold objective keeps being re-estimated until enough draws were accepted
    est = []
    for f in ctx.reachable([upd], depth=2, may=False):
        if f.cls is None or not cls.is_subclass_of(f.cls):
            continue
        for (s, t, k) in ctx.stores(f, "self.objective['n_batches']"):
            est.append((f, s))
    ok = False
    for (f, s) in est:
        if isinstance(s, ast.Assign) and cfg_of(f).can_reach_return(ctx.node(f, s)):
            v = ctx.term(f, s.value)
            alts = v[1] if v[0] == 'phi' else (v,)
            keep = any(match(a, pattern("self.objective['n_batches'] + 1")) is not None
                       for a in alts)
            estm = any(contains(a, 'ceil(_)') for a in alts)
            calls_f = [c for c in ctx.calls(upd) if f in ctx.cg.resolve(upd, c)]
            if keep and estm and calls_f and \
                    cfg_of(upd).must_pass([ctx.node(upd, c) for c in calls_f]):
                # every path of f on which a threshold is set reaches the store
                cfgf = cfg_of(f)
                rets = [n for n in cfgf.nodes if n.kind == 'stmt' and isinstance(n.ast, ast.Return)]
                early_ok = all(any(pol and match(tt, pattern("self.objective['threshold'] is None"))
                                   is not None for (tt, pol, _) in ctx.guards(f, r.ast))
                               for r in rets)
                if early_ok and cfgf.must_follow(cfgf.entry, [ctx.node(f, s)] + rets):
                    ok = True
    ctx.check(ok, upd, 'threshold objective keeps sampling until enough draws are accepted',
              'n_batches = previous + 1 while nothing is accepted, else an estimate; refreshed '
              'after every batch',
              "with a threshold objective the number of batches is not re-estimated after "
              'every batch (the run would stop at the initial guess)', fn=upd,
              node=est[0][1] if est else upd.node)
    # finished: objective <= consumed
    pi = ctx.cls(PI)
    fin = ctx.own_method(cls, 'finished')
    rr = returns(fin)
    ok = len(rr) == 1 and match(ctx.term(fin, rr[0].value),
                                pattern("self._objective_n_batches <= self.state['n_batches']")) \
        is not None
    ctx.check(ok, fin, 'finished when consumed >= objective',
              "objective n_batches <= state['n_batches']",
              'finished is not `objective n_batches <= consumed batches`', fn=fin,
              node=rr[0] if rr else fin.node)
    # _has_batches_to_submit: never submits beyond the objective
    hb = ctx.own_method(cls, '_has_batches_to_submit')
    rr = returns(hb)
    ok = len(rr) == 1 and match(
        ctx.term(hb, rr[0].value),
        pattern("self.state['n_batches'] + self.batches.num_pending < self._objective_n_batches")) \
        is not None
    ctx.check(ok, hb, 'no submission beyond the objective',
              'consumed + pending < objective',
              'submission is not limited by `consumed + pending < objective n_batches`', fn=hb,
              node=rr[0] if rr else hb.node)


def _threshold_alt_ok(t):
    return t == ('param', 'threshold')


NUMPY_SCOPE_MODULES = ('elfi.methods.inference.samplers',
                       'elfi.methods.inference.parameter_inference', 'elfi.methods.results',
                       'elfi.client', 'elfi.executor', 'elfi.loader', 'elfi.compiler', 'elfi.utils',
                       'elfi.model.utils')


def library_attr_exists(dotted):
    parts = dotted.split('.')
    for i in range(len(parts), 0, -1):
        try:
            obj = importlib.import_module('.'.join(parts[:i]))
        except Exception:
            continue
        for a in parts[i:]:
            if not hasattr(obj, a):
                return False
            obj = getattr(obj, a)
        return True
    return None


def missing_library_attrs(ctx, f):
    out = []
    for n in own_nodes(f.node):
        if isinstance(n, ast.Attribute) and isinstance(n.ctx, ast.Load):
            p = getattr(n, '_parent', None)
            if isinstance(p, ast.Attribute) and p.value is n:
                continue
            d = ctx.repo.dotted_of(f.module, n)
            if d is None:
                continue
            top = d.split('.')[0]
            if top not in ('numpy', 'scipy'):
                continue
            r = library_attr_exists(d)
            if r is False:
                out.append((n, d))
    return out


@obligation('C01-g', 'T12', 'library attributes referenced on the sampling path exist', floor=10,
            necessary='a reference to a removed numpy alias raises AttributeError on every run')
def c01_g(ctx):
    cls = ctx.cls(REJ)
    ctx.fact('attribute existence is looked up in the installed numpy / scipy namespaces (what '
             'a type checker\'s stubs would answer); nothing of elfi is imported')
    entries = [ctx.own_method(cls, n) for n in ('sample', 'infer', 'set_objective', 'iterate',
                                                'update', 'extract_result', '__init__')]
    n = 0
    for f in ctx.reachable(entries, depth=3, may=False):
        if f.module.name not in NUMPY_SCOPE_MODULES:
            continue
        n += 1
        miss = missing_library_attrs(ctx, f)
        if miss:
            for (node, d) in miss:
                ctx.bad(f, 'missing library attribute',
                        '`{}` does not exist in the installed library'.format(d), fn=f, node=node)
        else:
            ctx.ok(f, 'library attributes resolve', '', fn=f, node=f.node)
    if library_attr_exists('numpy.Inf') is not False or library_attr_exists('numpy.inf') is not True:
        ctx.undecided('positive example failed: numpy.Inf should be absent, numpy.inf present')


@obligation('C01-h', 'T2', 'extracting a result does not write into the sampler\'s sample buffers',
            floor=2,
            necessary='the buffers keep batch_size scratch rows beyond n_samples; trimming them in '
                      'place makes every later batch overwrite kept draws, so a run that was '
                      'inspected mid-way no longer returns the best draws')
def c01_h(ctx):
    cls = ctx.cls(REJ)
    er = ctx.own_method(cls, 'extract_result')
    ex = ctx.ex(er)
    w = ctx.stores(er, "self.state['samples'][_]") + ctx.stores(er, "self.state['samples']")
    ctx.check(not w, er, 'sample buffers are read only during extraction',
              'outputs collected in a fresh dict',
              'extract_result stores into self.state[\'samples\'] (through `{}`): the live '
              'buffers are replaced by their first n_samples rows'.format(
                  src(w[0][0])[:60] if w else ''), fn=er, node=w[0][0] if w else er.node)
    # the dict handed to the result object is a new one
    rr = [r for r in returns(er) if r.value is not None]
    ok = False
    for r in rr:
        t = ex.term(r.value)
        kw = term_kwargs(t) if t[0] == 'call' else {}
        o = kw.get('outputs')
        if o is not None and o != pattern_term("self.state['samples']"):
            ok = True
    ctx.check(ok, er, 'result outputs are not the state dict itself', 'Sample(outputs=<new dict>)',
              'the result object is given the sampler\'s own state dict', fn=er,
              node=rr[0] if rr else er.node)



@obligation('C01-i', 'T6 T11', 'a threshold of exactly 0 (exact matching on discrete data) is a threshold: it is never tested by truth value', floor=1,
            necessary='with `if not threshold` a zero threshold is treated as absent: the stopping rule and the acceptance test disagree')
def c01_i(ctx):
    from .base import zero_is_valid_obligation
    zero_is_valid_obligation(ctx, ['threshold'])


@obligation('C01-j', 'T6 T13', 'the objective form is chosen by what was given: quantile -> budget '
            'ceil(n_samples / quantile); a budget -> ceil(budget / batch_size) batches; only a '
            'threshold -> the initial estimate', floor=4,
            necessary='a branch taken under the opposite condition turns a budget run into a '
                      'threshold run (or the reverse): another number of batches is consumed')
def c01_j(ctx):
    cls = ctx.cls(REJ)
    so = ctx.own_method(cls, 'set_objective')
    ex = ctx.ex(so)

    def raw_facts(stmt):
        out = []
        g = cfg_of(so)
        for (tn, pol) in g.guards_of(ctx.node(so, stmt)):
            if tn.kind != 'test':
                continue
            t = ex.raw(tn.ast)
            p = pol
            while t[0] == 'unary' and t[1] == 'not':
                t, p = t[2], not p
            out.append((t, p))
        return out
    names = {'quantile': None, 'n_sim': None}
    asg = [s for s in own_nodes(so.node) if isinstance(s, ast.Assign) and
           isinstance(s.targets[0], ast.Name)]
    # n_sim = ceil(n_samples / quantile) only when a quantile is given
    q2n = [s for s in asg
           if match(ex.term(s.value), pattern('ceil(n_samples / _q)')) is not None]
    ok = bool(q2n) and any(
        p and t in (('name', 'quantile'), ('param', 'quantile')) or
        p and match(t, pattern('quantile is not None')) is not None or
        (not p) and match(t, pattern('quantile is None')) is not None
        for (t, p) in raw_facts(q2n[0]))
    ctx.check(ok, so, 'quantile turned into a budget only when a quantile is given',
              'if quantile: n_sim = ceil(n_samples / quantile)',
              'the quantile budget is computed under the opposite condition', fn=so,
              node=q2n[0] if q2n else so.node)
    # n_batches from the budget when there is one, else the initial estimate
    bud = [s for s in asg if match(ex.term(s.value), pattern('ceil(_n / self.batch_size)'))
           is not None]
    est = [s for s in asg if match(ex.term(s.value), pattern('self.max_parallel_batches'))
           is not None]

    def has_budget(stmt, want):
        for (t, p) in raw_facts(stmt):
            if t in (('name', 'n_sim'), ('param', 'n_sim')) and p == want:
                return True
            if match(t, pattern('n_sim is not None')) is not None and p == want:
                return True
            if match(t, pattern('n_sim is None')) is not None and p == (not want):
                return True
        return False
    ctx.check(bool(bud) and has_budget(bud[0], True), so,
              'budget batches used when a budget exists', 'if n_sim: n_batches = ceil(..)',
              'ceil(n_sim / batch_size) is not used exactly when a budget exists', fn=so,
              node=bud[0] if bud else so.node)
    ctx.check(bool(est) and has_budget(est[0], False), so,
              'initial estimate only without a budget', 'else: n_batches = max_parallel_batches',
              'the initial estimate max_parallel_batches is not used exactly when there is no '
              'budget (a budget run would stop after max_parallel_batches batches)', fn=so,
              node=est[0] if est else so.node)
    # default: nothing given -> quantile
    dq = [s for s in asg if s.targets[0].id == 'quantile' and
          isinstance(s.value, ast.Constant)]
    okd = False
    if dq:
        facts = raw_facts(dq[0])
        flat = []
        for (t, p) in facts:
            if t[0] == 'bool' and t[1] == 'and' and p:
                flat += [(x, True) for x in t[2]]
            else:
                flat.append((t, p))
        okd = all(any(p and match(t, pattern('{} is None'.format(nm))) is not None
                      for (t, p) in flat) for nm in ('quantile', 'threshold', 'n_sim'))
    ctx.check(okd, so, 'default objective only when nothing was given',
              'if quantile is None and threshold is None and n_sim is None', '', fn=so,
              node=dq[0] if dq else so.node)
    # the sampler is restarted: state re-created, handler reset
    st = [s for (s, t, k) in ctx.stores(so, 'self.state') if k == 'assign']
    rs = ctx.calls(so, 'self.batches.reset()')
    ctx.check(bool(st) and bool(rs) and cfg_of(so).must_pass([ctx.node(so, st[0])]) and
              cfg_of(so).must_pass([ctx.node(so, _stmt1(rs[0]))]), so,
              'state re-created and batch handler reset on every call', '',
              'set_objective does not restart the sampler (fresh state and reset handler) on '
              'every path', fn=so, node=st[0] if st else so.node)


def _stmt1(node):
    n = node
    while n is not None and not isinstance(n, ast.stmt):
        n = getattr(n, '_parent', None)
    return n


_C01_GUARDS = [
    (REJ + '.update', 'self._init_samples_lazy(batch)',
     [("self.state['samples'] is None", True)],
     'the sample buffers are created once, by the first consumed batch'),
    (REJ + '.extract_result', 'raise:0',
     [("self.state['samples'] is None", True)],
     'extraction is refused only while nothing was consumed'),
    (REJ + '.extract_result', 'self._update_distances()',
     [('self.adaptive', True)], 'distances are recomputed only for an adaptive distance'),
    (REJ + '._init_samples_lazy', 'raise:0', [('_n in batch', False)],
     'a requested output that the batch lacks is refused'),
    (REJ + '._init_samples_lazy', 'raise:1', [('is_array(_x)', False)],
     'a non-array output is refused'),
    (REJ + '._init_samples_lazy', 'raise:2', [('is_array(_x)', True),
                                              ('len(_x) != self.batch_size', True)],
     'an output of another length than the batch size is refused'),
]


@obligation('C01-k', 'T11', 'the rejection sampler initialises, refuses and recomputes on the right '
            'side of its tests (frozen table of {} rows)'.format(len(_C01_GUARDS)),
            floor=len(_C01_GUARDS),
            necessary='buffers re-created for every batch discard the accepted rows; an output of '
                      'another length than the batch size misaligns parameters and distances')
def c01_k(ctx):
    from .base import check_guard_table
    check_guard_table(ctx, _C01_GUARDS)


@obligation('C01-l', 'T7', 'with an adaptive distance the re-sort after a distance update applies '
            'one permutation to every output buffer, the discrepancy included (shared with C12-f)',
            floor=2,
            necessary='rows of the returned outputs must come from the same draw and be in '
                      'ascending order of the distance in force: a buffer that is skipped, or the '
                      'permutation applied on the wrong side of the key test, misaligns them')
def c01_l(ctx):
    from . import C12
    C12.c12_f(ctx)


@obligation('C01-m', 'T4', 'threshold objective: the safety margin of the batch-count estimate is '
            'added (the estimate grows while fewer than n_samples draws are acceptable)', floor=1,
            necessary='n_samples / acceptance rate exceeds the simulations consumed only by '
                      'n_sim / n_acceptable; a margin that is subtracted lets the estimate fall '
                      'to the consumed batches while an acceptable draw is still missing: the '
                      'run stops and returns an unfilled row')
def c01_m(ctx):
    from ..domains import polarity, POS
    cls = ctx.cls(REJ)
    n = 0
    for m in cls.methods.values():
        sts = [s for (s, t, k) in ctx.stores(m, "self.objective['n_batches']")
               if isinstance(s, ast.Assign)]
        if not sts or not any(isinstance(x, ast.Constant) and x.value == 'threshold'
                              for x in ast.walk(m.node)):
            continue
        ex = ctx.ex(m)
        for s in sts:
            t = ex.term(s.value)
            alts = t[1] if t[0] == 'phi' else (t,)
            for a in alts:
                inds = [x for x in subterms(a) if x[0] == 'call' and x[1] in (
                    ('global', 'builtins.int'), ('global', 'int'), ('name', 'int')) and
                    len(x[2]) == 1 and x[2][0][0] == 'cmp']
                if not inds:
                    continue
                n += 1
                ind = inds[0]
                while True:       # rounding up is monotone
                    mm = match(a, pattern('ceil(_x)')) or match(a, pattern('np.ceil(_x)')) or \
                        match(a, pattern('int(_x)'))
                    if mm is None or a is ind:
                        break
                    a = mm['x']
                p = polarity(a, lambda x: x == ind, positive=(
                    pattern_term('self.batch_size'),))
                ctx.check(p == POS, m, 'margin enters the estimate with a positive sign',
                          'n_batches = ceil((n_samples / rate + margin) / batch_size)',
                          'the estimate depends on the "not enough acceptable draws yet" '
                          'indicator with polarity {} (expected +): the margin does not push the '
                          'estimate up'.format(p), fn=m, node=s)
    if n == 0:
        raise AnchorMissing('no batch-count estimate with a margin indicator in the rejection '
                            'sampler')
