"""C05 - output pools are transparent.

Decided: stored batch -> output and no operation; missing -> requested; callback exactly on
consumption; add_batch never overwrites; refusal guards for batch_size / seed.
Not decided: equality of results with and without a pool.
"""

import ast

from .. import AnalysisError, AnchorMissing
from ..cfg import cfg_of
from ..model import own_nodes
from ..values import pattern, match, match_any, find, contains, show, subterms
from .base import obligation, src, callee_name
from .C04 import pattern_term, returns, enclosing_loop, _inside

CC = 'elfi.model.elfi_model:ComputationContext'
OP = 'elfi.store:OutputPool'


@obligation('C05-a', 'T1', 'a stored batch supplies the node value; a missing one is requested',
            floor=5, necessary='a stored node that keeps its operation is re-simulated; a '
                               'missing node that is not requested is never stored')
def c05_a(ctx):
    ld = ctx.fn('elfi.loader:PoolLoader.load')
    ex = ctx.ex(ld)
    gb = ctx.calls(ld, 'context.pool.get_batch(*_)')
    ok = len(gb) == 1 and gb[0].args and ex.term(gb[0].args[0]) == ('param', 'batch_index')
    ctx.check(ok, ld, 'batch of the loaded index', 'pool.get_batch(batch_index)',
              'the pool is not asked for the batch that is being loaded', fn=ld,
              node=gb[0] if gb else ld.node)
    loops = [n for n in own_nodes(ld.node) if isinstance(n, ast.For)]
    lo = None
    for n in loops:
        if match_any(ex.term(n.iter, cfg_of(ld).by_stmt[id(n)]),
                     ('context.pool.stores', 'context.pool.stores.keys()',
                      'context.pool.output_names')) is not None:
            lo = n
    ctx.check(lo is not None, ld, 'all stores visited', 'for node in context.pool.stores',
              'the loader does not visit every store of the pool', fn=ld,
              node=loops[0] if loops else ld.node)
    if lo is None:
        return
    outs = [s for s in ast.walk(lo) if isinstance(s, ast.Assign) and
            isinstance(s.targets[0], ast.Subscript) and
            match(ex.term(s.targets[0]), pattern("compiled_net.nodes[_n]['output']")) is not None]
    ok = False
    for s in outs:
        v = ex.term(s.value)
        key = ex.term(s.targets[0])[1][2]
        if v == ('sub', ex.term(gb[0]) if gb else None, key):
            for (t, pol, _) in ctx.guards(ld, s):
                if pol and match(t, pattern('_n in _b')) is not None and \
                        contains(t, 'context.pool.get_batch(*_)'):
                    ok = True
    ctx.check(ok, ld, 'stored value becomes the output', "nodes[node]['output'] = batch[node]",
              'a stored batch value is not installed as the output of its own node', fn=ld,
              node=outs[0] if outs else lo)
    for s in outs:
        rem = [c for c in ast.walk(lo) if isinstance(c, ast.Call) and callee_name(c) == 'pop' and
               c.args and ex.term(c.args[0]) == ('const', 'operation') and
               ex.term(c.func.value) == ex.term(s.targets[0])[1]] + \
              [d for d in ast.walk(lo) if isinstance(d, ast.Delete) and
               any(ex.term(t) == ('sub', ex.term(s.targets[0])[1], ('const', 'operation'))
                   for t in d.targets)]
        ctx.check(bool(rem) and ctx.must_follow(ld, s, rem), ld,
                  'stored node loses its operation', "nodes[node].pop('operation')",
                  'a node supplied from the pool keeps its operation', fn=ld, node=s)
    adds = [c for c in ast.walk(lo) if isinstance(c, ast.Call) and callee_name(c) == 'add' and
            match(ex.term(c.func.value), pattern("compiled_net.graph['outputs']")) is not None]
    ok = False
    for c in adds:
        gs = ctx.guards(ld, c)
        notin = any(pol and match(t, pattern("_n not in compiled_net.graph['outputs']"))
                    is not None for (t, pol, _) in gs)
        missing = any((pol is False) and match(t, pattern('_n in _b')) is not None and
                      contains(t, 'context.pool.get_batch(*_)') for (t, pol, _) in gs)
        present = any(pol and match(t, pattern('compiled_net.has_node(_n)'))
                      is not None for (t, pol, _) in gs)
        if missing and present and c.args and ex.term(c.args[0])[0] == 'elem':
            ok = True
    ctx.check(ok, ld, 'missing node is requested', "graph['outputs'].add(node) when not stored",
              'a store whose batch is missing is not added to the requested outputs (it would '
              'never be filled)', fn=ld, node=adds[0] if adds else lo)
    # no pool -> untouched net
    early = [r for r in returns(ld) if any(
        pol and match(t, pattern('context.pool is None')) is not None
        for (t, pol, _) in ctx.guards(ld, r))]
    ctx.check(bool(early), ld, 'no pool, no change', 'return net when context.pool is None',
              'the loader does not return early without a pool', fn=ld,
              node=early[0] if early else ld.node)
    # generate(with_values=...) goes through the same path
    gen = ctx.fn('elfi.model.elfi_model:ElfiModel.generate')
    exg = ctx.ex(gen)
    ab = ctx.calls(gen, name='add_batch')
    ok = bool(ab) and all(len(c.args) == 2 and exg.term(c.args[0]) == ('param', 'with_values')
                          and exg.term(c.args[1]) == ('const', 0) for c in ab)
    cc = [c for c in ctx.calls(gen, 'ComputationContext(*_)')]
    ok = ok and bool(cc) and any(k.arg == 'pool' for k in cc[0].keywords)
    ld0 = ctx.calls(gen, name='load_data')
    ok = ok and bool(ld0) and any(k.arg == 'batch_index' and exg.term(k.value) == ('const', 0)
                                  for k in ld0[0].keywords)
    ctx.check(ok, gen, 'with_values supplied as batch 0 of a pool',
              'pool.add_batch(with_values, 0), load_data(batch_index=0)',
              'with_values are not supplied as batch 0 of the pool that is loaded', fn=gen,
              node=ab[0] if ab else gen.node)


@obligation('C05-b', 'T1 T2', 'the pool callback runs exactly when a batch is consumed', floor=4,
            necessary='a batch that is consumed but not stored (or stored but not consumed) '
                      'makes the pool differ from the consumed batches')
def c05_b(ctx):
    bh = ctx.cls('elfi.client:BatchHandler')
    wn = ctx.own_method(bh, 'wait_next')
    ex = ctx.ex(wn)
    cbs = ctx.calls(wn, 'self.context.callback(*_)')
    cfg = cfg_of(wn)
    ok = len(cbs) == 1 and cfg.must_pass([ctx.node(wn, cbs[0])])
    ctx.check(ok, wn, 'callback on every consumption', 'context.callback(...) once on every path',
              'wait_next can return a batch without handing it to the pool', fn=wn,
              node=cbs[0] if cbs else wn.node)
    if cbs:
        a = [ex.term(x) for x in cbs[0].args]
        rr = returns(wn)
        rt = ex.term(rr[0].value) if rr else None
        ok = len(a) == 2 and rt is not None and rt[0] == 'tuple' and tuple(a) == rt[1] and \
            contains(a[0], 'self.client.get_result(_)')
        ctx.check(ok, wn, 'callback gets the consumed pair',
                  'callback(batch, batch_index) = the returned pair',
                  'the pool is given {} but wait_next returns {}'.format(
                      [show(x)[:40] for x in a], show(rt)[:80] if rt else None), fn=wn,
                  node=cbs[0])
    # who else calls a context callback
    n_other = 0
    for (f, n) in ctx.cg.call_sites_named('callback'):
        if f is wn:
            continue
        recv = ctx.term(f, n.func.value) if isinstance(n.func, ast.Attribute) else None
        if recv is not None and (contains(recv, '_.context') or
                                 contains(recv, '_.computation_context')):
            n_other += 1
            ctx.bad(f, 'foreign callback', '{} also stores batches into the pool'.format(f.qname),
                    fn=f, node=n)
    cc = ctx.cls(CC)
    cb = ctx.own_method(cc, 'callback')
    exc = ctx.ex(cb)
    ab = ctx.calls(cb, name='add_batch')
    ok = len(ab) == 1 and [exc.term(x) for x in ab[0].args] == [('param', 'batch'),
                                                                ('param', 'batch_index')]
    if ok:
        ok = ctx.only_guarded_by(cb, ab[0], ('self._pool is not None', 'self._pool'), at_most=1)
    ctx.check(ok, cb, 'callback stores the batch', 'pool.add_batch(batch, batch_index) if a pool '
              'is set', 'the callback does not store (batch, batch_index) whenever a pool is set',
              fn=cb, node=ab[0] if ab else cb.node)
    # cancelled batches are never fetched, hence never stored (C04-d owns the pending map)
    cp = ctx.own_method(bh, 'cancel_pending')
    ok = not ctx.calls(cp, name='get_result') and not ctx.calls(cp, name='callback')
    ctx.check(ok, cp, 'cancelled batches are not stored', 'no get_result / callback on cancel',
              'cancel_pending fetches or stores the cancelled batches', fn=cp, node=cp.node)


@obligation('C05-c', 'T11', 'the pool stores only its own nodes and never overwrites a batch',
            floor=4, necessary='overwriting replaces stored values by recomputed ones')
def c05_c(ctx):
    op = ctx.cls(OP)
    ab = ctx.own_method(op, 'add_batch')
    ex = ctx.ex(ab)
    st = [s for s in own_nodes(ab.node) if isinstance(s, ast.Assign) and
          isinstance(s.targets[0], ast.Subscript) and
          ex.term(s.targets[0].slice) == ('param', 'batch_index')]
    if not st:
        ctx.bad(ab, 'batch stored under its index', 'add_batch does not store under batch_index',
                fn=ab, node=ab.node)
        return
    s = st[0]
    tt = ex.term(s.targets[0])
    v = ex.term(s.value)
    lo = enclosing_loop(s)
    ok = isinstance(lo, ast.For) and match(ex.term(lo.iter, cfg_of(ab).by_stmt[id(lo)]),
                                           pattern('batch.items()')) is not None and \
        v[0] == 'item' and v[2] == 1 and match(tt[1], pattern('self._get_store_for(_n)')) \
        is not None and match(tt[1], pattern('self._get_store_for(_n)'))['n'] == ('item', v[1], 0)
    ctx.check(ok, ab, 'batch stored under its index', 'store_for(node)[batch_index] = values',
              'values are not stored under (their node, batch_index)', fn=ab, node=s)
    gs = ctx.guards(ab, s)
    own = any(pol is False and match(t, pattern('_n not in self.stores')) is not None
              for (t, pol, _) in gs)
    fresh = any(pol is False and match(t, pattern('batch_index in _s')) is not None and
                match(t, pattern('batch_index in _s'))['s'] == tt[1]
                for (t, pol, _) in gs)
    other = [t for (t, pol, _) in gs if pol is False and
             match(t, pattern('batch_index in _s')) is not None and
             match(t, pattern('batch_index in _s'))['s'] != tt[1]]
    ctx.check(not other, ab, 'skip decided per store', 'batch_index in <the store written>',
              'whether a node\'s values are stored is decided by membership in {} instead of in '
              'the node\'s own store: a store that lacks the batch is not filled when another '
              'one holds it'.format(show(match(other[0], pattern('batch_index in _s'))['s'])
                                    if other else ''), fn=ab, node=s)
    ctx.check(own, ab, 'only pool nodes', 'skips nodes without a store',
              'outputs of nodes the pool does not store are stored too', fn=ab, node=s)
    ctx.check(fresh, ab, 'no overwrite', 'skips an index the store already holds',
              'an index the store already holds is overwritten', fn=ab, node=s)
    gb = ctx.own_method(op, 'get_batch')
    exg = ctx.ex(gb)
    st = [x for x in own_nodes(gb.node) if isinstance(x, ast.Assign) and
          isinstance(x.targets[0], ast.Subscript) and
          match(exg.term(x.value), pattern('self.stores[_o][batch_index]')) is not None]
    ok = bool(st) and all(
        exg.term(x.targets[0].slice) == match(exg.term(x.value),
                                              pattern('self.stores[_o][batch_index]'))['o'] and
        any(pol and match(t, pattern('batch_index in self.stores[_o]')) is not None
            for (t, pol, _) in ctx.guards(gb, x)) for x in st)
    ctx.check(ok, gb, 'batch read back under the same keys',
              'batch[output] = stores[output][batch_index] if present',
              'get_batch does not return stores[output][batch_index] under key output', fn=gb,
              node=st[0] if st else gb.node)


@obligation('C05-d', 'T11', 'a pool refuses a batch_size or seed that differs from its own',
            floor=5, necessary='reusing stored batches under another seed or batch size mixes '
                               'draws of different runs')
def c05_d(ctx):
    cc = ctx.cls(CC)
    init = ctx.own_method(cc, '__init__')
    ex = ctx.ex(init)
    for fld in ('batch_size', 'seed'):
        good = None
        for r in ctx.stmts(init, ast.Raise):
            gs = ctx.guards(init, r)
            differs = any(pol and match_any(t, ('{0} != pool.{0}'.format(fld),
                                                'pool.{0} != {0}'.format(fld))) is not None
                          for (t, pol, _) in gs)
            ctxt = any(pol and match(t, pattern('pool.has_context')) is not None
                       for (t, pol, _) in gs) and \
                any(pol and match(t, pattern('pool is not None')) is not None
                    for (t, pol, _) in gs)
            given = any(pol is False and match(t, pattern('{} is None'.format(fld))) is not None
                        for (t, pol, _) in gs)
            if differs and ctxt and given:
                good = r
        ctx.check(good is not None, init, 'differing {} refused'.format(fld),
                  'raise when {0} is given and != pool.{0}'.format(fld),
                  'a {} that differs from the pool\'s is not refused'.format(fld), fn=init,
                  node=good or init.node)
        # adoption when not given
        ad = [s for s in own_nodes(init.node) if isinstance(s, ast.Assign) and
              isinstance(s.targets[0], ast.Name) and s.targets[0].id == fld and
              match(ex.term(s.value), pattern('pool.' + fld)) is not None]
        ok = bool(ad) and any(pol and match(t, pattern('{} is None'.format(fld))) is not None
                              for (t, pol, _) in ctx.guards(init, ad[0]))
        ctx.check(ok, init, 'pool {} adopted when not given'.format(fld),
                  '{0} = pool.{0} if {0} is None'.format(fld),
                  'the pool\'s {} is not adopted when none is given'.format(fld), fn=init,
                  node=ad[0] if ad else init.node)
    sc = ctx.calls(init, name='set_context')
    ok = bool(sc) and all(
        [ex.term(a) for a in c.args] == [('param', 'self')] and
        any((not pol) and match(t, pattern('pool.has_context')) is not None
            for (t, pol, _) in ctx.guards(init, c))
        for c in sc)
    ctx.check(ok, init, 'context-less pool receives the context', 'pool.set_context(self)',
              'a pool without context does not receive the context of its first use', fn=init,
              node=sc[0] if sc else init.node)
    # the stored fields are set after the checks
    for fld, src_ in (('_batch_size', 'batch_size'), ('_seed', 'seed')):
        st = [s for (s, t, k) in ctx.stores(init, 'self.' + fld) if isinstance(s, ast.Assign)]
        raises = ctx.stmts(init, ast.Raise)
        ok = bool(st) and all(not cfg_of(init).exists_path(ctx.node(init, st[0]),
                                                           ctx.node(init, r)) for r in raises)
        ctx.check(ok, init, '{} stored after validation'.format(fld), 'validation precedes',
                  '{} is stored before the pool check'.format(fld), fn=init,
                  node=st[0] if st else init.node)
    op = ctx.cls(OP)
    sct = ctx.own_method(op, 'set_context')
    exs = ctx.ex(sct)
    g = any(any(pol and match(t, pattern('self.has_context')) is not None
                for (t, pol, _) in ctx.guards(sct, r)) for r in ctx.stmts(sct, ast.Raise))
    ctx.check(g, sct, 'context set once', 'raises when a context exists',
              'set_context silently replaces an existing context', fn=sct, node=sct.node)
    vals = {}
    for (s, t, k) in ctx.stores(sct, 'self.batch_size') + ctx.stores(sct, 'self.seed'):
        if isinstance(s, ast.Assign):
            vals[exs.term(s.targets[0])[2]] = exs.term(s.value)
    ok = vals.get('batch_size') == pattern_term('context.batch_size') and \
        vals.get('seed') == pattern_term('context.seed')
    ctx.check(ok, sct, 'context copied', 'batch_size and seed taken from the context',
              'set_context stores {}'.format({k: show(v) for k, v in vals.items()}), fn=sct,
              node=sct.node)
    hc = op.methods.get('has_context')
    if hc is not None:
        rr = returns(hc)
        ok = len(rr) == 1 and match_any(
            ctx.term(hc, rr[0].value),
            ('self.seed is not None and self.batch_size is not None',
             'self.batch_size is not None and self.seed is not None')) is not None
        ctx.check(ok, hc, 'has_context', 'seed and batch_size both set',
                  'has_context is not (seed is not None and batch_size is not None)', fn=hc,
                  node=rr[0] if rr else hc.node)


# On-disk pools: the store bookkeeping decides which batches a reopened pool reports and
# whether a batch is appended or overwritten in place.  Same obligations as C06-f / C06-g.
from . import C06 as _C06   # noqa: E402

obligation('C05-e', 'T1 T5 T6', 'array stores of a pool append only at their end and count '
           'batches once (shared with C06-f)', floor=8,
           necessary='a pool whose store appends where it should overwrite holds copies of other '
                     'batches: reuse pairs parameters with the wrong simulations')(_C06.c06_f)


obligation('C05-f', 'T1 T11 T8', 'a saved / reopened pool still holds its stores (shared with '
           'C06-h)', floor=6,
           necessary='a pool whose stores are lost on save or reopen re-simulates (or silently '
                     'drops) the batches it held')(_C06.c06_h)



@obligation('C05-g', 'T6 T11', 'seed 0 and batch index 0 are never tested by truth value in the pool code', floor=2,
            necessary='a pool created with seed 0 would report no context and accept another seed')
def c05_g(ctx):
    from .base import zero_is_valid_obligation
    zero_is_valid_obligation(ctx, ['batch_index', 'seed'])


# An ArrayPool keeps its batches in on-disk array stores: what the store reports after append /
# read / append sequences, and which writes it accepts, decide what a reused pool hands out.
@obligation('C05-h', 'T1 T2', 'the on-disk array behind a pool store reports what was appended '
            '(file-effect automaton, shared with C06-a)', floor=10,
            necessary='a stale memory map after an append makes an open pool hand out empty '
                      'batches: reuse no longer equals the run without a pool')
def c05_h(ctx):
    from . import C06 as _C06
    return _C06.c06_a(ctx)


@obligation('C05-i', 'T5 T6 T11', 'the array store accepts the batch that exactly fills it and '
            'counts batches once (shared with C06-i)', floor=9,
            necessary='a refused last batch leaves the pool one batch short of the consumed ones')
def c05_i(ctx):
    from . import C06 as _C06
    return _C06.c06_i(ctx)


@obligation('C05-j', 'T8 T13', 'overriding a node works whether or not the pool already supplied '
            'its value: the removal of its operation tolerates an absent key', floor=2,
            necessary='the pool loader removes the operation of every node it supplies; a second, '
                      'intolerant removal raises KeyError when a sampler overrides a stored node '
                      '(SMC / BO re-run on a pool that stores the parameters)')
def c05_j(ctx):
    bh = ctx.cls('elfi.client:BatchHandler')
    sub = ctx.own_method(bh, 'submit')
    ex = ctx.ex(sub)
    loops = [l for l in own_nodes(sub.node) if isinstance(l, ast.For) and
             match(ex.term(l.iter), pattern('_b.items()')) is not None]
    if not loops:
        raise AnchorMissing('override loop in BatchHandler.submit')
    lp = loops[0]
    n = 0
    for s in ast.walk(lp):
        # del d['operation']  /  d.pop('operation')  /  d.pop('operation', default)
        if isinstance(s, ast.Delete):
            for t in s.targets:
                if isinstance(t, ast.Subscript) and isinstance(t.slice, ast.Constant) and \
                        t.slice.value == 'operation':
                    n += 1
                    ctx.bad(sub, 'tolerant removal of the operation',
                            '`{}` raises KeyError when the pool loader has already removed the '
                            'operation of the overridden node'.format(src(s)[:60]), fn=sub,
                            node=s)
        if isinstance(s, ast.Call) and isinstance(s.func, ast.Attribute) and \
                s.func.attr == 'pop' and s.args and isinstance(s.args[0], ast.Constant) and \
                s.args[0].value == 'operation':
            n += 1
            ctx.check(len(s.args) >= 2, sub, 'tolerant removal of the operation',
                      "pop('operation', None)",
                      "`{}` raises KeyError when the pool loader has already removed the "
                      'operation of the overridden node'.format(src(s)[:60]), fn=sub, node=s)
    if n == 0:
        ctx.bad(sub, 'overridden node loses its operation',
                'an overridden node keeps its operation: the executor refuses a node with both an '
                'output and an operation', fn=sub, node=lp)
    # the same node receives the given value
    st = [s for s in ast.walk(lp) if isinstance(s, ast.Call) and isinstance(s.func, ast.Attribute)
          and s.func.attr == 'update' and s.args and isinstance(s.args[0], ast.Dict)]
    st2 = [s for s in ast.walk(lp) if isinstance(s, ast.Assign) and
           isinstance(s.targets[0], ast.Subscript) and
           isinstance(s.targets[0].slice, ast.Constant) and s.targets[0].slice.value == 'output']
    ok = False
    for s in st:
        keys = [k.value for k in s.args[0].keys if isinstance(k, ast.Constant)]
        if keys == ['output'] and ex.term(s.args[0].values[0])[0] == 'item' and \
                ex.term(s.args[0].values[0])[2] == 1:
            ok = True
    ok = ok or bool(st2)
    ctx.check(ok, sub, 'overridden node receives the given value', "nodes[k]['output'] = v", '',
              fn=sub, node=st[0] if st else lp)
    # the override happens on the net loaded for this batch, before it is submitted
    ld = ctx.calls(sub, 'self.client.load_data(*_)')
    sm = ctx.calls(sub, 'self.client.submit(_)')
    ok = bool(ld) and bool(sm) and cfg_of(sub).exists_path(
        ctx.node(sub, _stmt_of(ld[0])), ctx.node(sub, lp)) and \
        not cfg_of(sub).exists_path(ctx.node(sub, _stmt_of(sm[0])), ctx.node(sub, lp))
    ctx.check(ok, sub, 'override between load and submit', 'load_data; override; client.submit',
              'the given values are not written into the loaded net before it is submitted',
              fn=sub, node=lp)


def _stmt_of(node):
    n = node
    while n is not None and not isinstance(n, ast.stmt):
        n = getattr(n, '_parent', None)
    return n


_POOL = 'elfi.store:OutputPool'
_C05_GUARDS = [
    (_POOL + '.set_context', 'raise:0', [('self.has_context', True)],
     'a pool accepts a context only once'),
    (_POOL + '.get_batch', 'substore:_s[batch_index]',
     [('_s is None', False), ('batch_index in _s', True)],
     'a batch supplies a node exactly when the node\'s store holds that batch'),
    (_POOL + '.add_batch', 'subtarget:batch_index',
     [('_n in self.stores', True), ('batch_index in _s', False)],
     'values are stored for the pool\'s own nodes, and never over a batch the store holds'),
    (_POOL + '.add_store', 'raise:0',
     [('_n in self.stores', True), ('self.stores[_n] is None', False)],
     'an existing store is not replaced'),
    (_POOL + '._get_store_for', 'substore:self._make_store_for(_n)',
     [('self.stores[_n] is None', True)],
     'a default store is made only while the node has none'),
]


@obligation('C05-k', 'T11', 'the pool reads, writes and creates stores on the right side of its '
            'tests (frozen table of {} rows)'.format(len(_C05_GUARDS)), floor=len(_C05_GUARDS),
            necessary='a batch served from a store that does not hold it, or written over one it '
                      'holds, makes a reused pool differ from the fresh computation')
def c05_k(ctx):
    from .base import check_guard_table
    check_guard_table(ctx, _C05_GUARDS)


@obligation('C05-l', 'T1 T13', 'a new pool never adopts files that are already there: every place '
            'that gives the pool its name (the constructor, and the default name derived from the '
            'seed when the context is set) goes on to refuse a path that exists', floor=2,
            necessary='the files of an array pool do not record the batch size: a fresh pool that '
                      'is named like an older one (the default name depends only on the seed) '
                      'would slice the older pool\'s rows with its own batch size and serve them '
                      'as batches it holds - the results differ from the run without a pool')
def c05_l(ctx):
    cls = ctx.cls(_POOL)
    n = 0
    for m in cls.methods.values():
        sts = [s for (s, t, k) in ctx.stores(m, 'self.name', include_mutators=False)
               if isinstance(s, ast.Assign)]
        if not sts or m.is_setter:
            continue
        ex = ctx.ex(m)
        refusals = []
        for r in ctx.stmts(m, ast.Raise):
            gs = ctx.guards(m, r)
            if not any(pol and match(t, pattern('os.path.exists(self.path)')) is not None
                       for (t, pol, tn) in gs):
                continue
            for (t, pol, tn) in gs:
                # the existence test itself, or the "is there a path at all" test it sits under
                if pol and (match(t, pattern('os.path.exists(self.path)')) is not None or
                            t == pattern_term('self.path')):
                    refusals.append((r, tn))
        cfg = cfg_of(m)
        for s in sts:
            n += 1
            tests = [cfg.node_of(tn) if not hasattr(tn, 'succ') else tn for (_r, tn) in refusals]
            tests = [t for t in tests if t is not None]
            ok = bool(tests) and ctx.must_follow(m, s, [t.ast if hasattr(t, 'ast') else t
                                                        for t in tests])
            ctx.check(ok, m, 'naming is followed by the existing-path refusal',
                      'self.name = ...; if os.path.exists(self.path): raise',
                      '`{}` gives the pool a name and no test of os.path.exists(self.path) that '
                      'raises follows on every path: an existing directory of that name is '
                      'adopted silently'.format(src(s)[:60]), fn=m, node=s)
    if n < 2:
        raise AnchorMissing('expected the constructor and the context setter to name the pool, '
                            'found {} naming site(s)'.format(n))


@obligation('C05-m', 'T11 T1', 'closing, flushing and deleting a pool reaches every store that has '
            'the operation: `store.close()` / `store.flush()` run on the True side of '
            '`hasattr(store, <that name>)`, inside a loop over all stores that is never left early',
            floor=3,
            necessary='"after every flush or close the file is a standard .npy file": a pool whose '
                      'flush skips exactly the stores that can be flushed leaves their appended '
                      'rows and headers unwritten, and a reopened pool differs from the run')
def c05_m(ctx):
    cls = ctx.cls(_POOL)
    n = 0
    for name in ('close', 'flush', 'delete'):
        m = cls.lookup(name)
        if m is None:
            raise AnchorMissing('OutputPool.' + name)
        ex = ctx.ex(m)
        for c in ctx.calls(m):
            if not (isinstance(c.func, ast.Attribute) and c.func.attr in ('close', 'flush') and
                    not c.args):
                continue
            recv = ex.term(c.func.value)
            if recv == ('param', 'self') or contains(recv, 'super()'):
                continue
            lo = enclosing_loop(c)
            if lo is None:
                continue
            n += 1
            it = ex.term(lo.iter, cfg_of(m).by_stmt[id(lo)])
            over_all = match_any(it, ('self.stores.values()', 'list(self.stores.values())',
                                      'self.stores.items()')) is not None
            gs = [(t, pol) for (t, pol, _) in ctx.guards(m, c)]
            has = [pol for (t, pol) in gs
                   if match(t, pattern("hasattr(_s, '{}')".format(c.func.attr))) is not None]
            wrong = [t for (t, pol) in gs if match(t, pattern('hasattr(_s, _n)')) is not None and
                     match(t, pattern("hasattr(_s, '{}')".format(c.func.attr))) is None]
            early = any(isinstance(x, (ast.Break, ast.Return)) for x in ast.walk(lo))
            ok = over_all and all(has) and not wrong and not early
            ctx.check(ok, m, 'store.{}() reaches every store that supports it'.format(c.func.attr),
                      "for store in self.stores.values(): if hasattr(store, '{0}'): store.{0}()"
                      .format(c.func.attr),
                      '`{}` in {} is not run for every store that has the operation (negated or '
                      'mismatched hasattr test, partial loop, or early exit)'.format(
                          src(c)[:40], name), fn=m, node=c)
    if n < 3:
        raise AnchorMissing('expected store.close() / store.flush() loops in close, flush and '
                            'delete of the pool, found {}'.format(n))


@obligation('C05-n', 'T1 T5', 'a batch removed from a pool store is taken out of its count (shared '
            'with C06-m)', floor=1,
            necessary='the pool holds exactly the consumed batches: a removed batch that is still '
                      'counted is served again from stale rows')
def c05_n(ctx):
    _C06.c06_m(ctx)
