"""C09 - MCMC kernels.

Decided: RNG discipline (every draw on the generator seeded by the entry function), support
guards, orientation of the Metropolis acceptance test, restore pairing on rejection, chain
lengths, proposal shape, the NUTS warm-up window and slice-eligibility test.
Not decided: NUTS tree building / U-turn / dual averaging correctness, moments.
"""

import ast

from .. import AnalysisError, AnchorMissing
from ..cfg import cfg_of
from ..model import own_nodes
from ..values import pattern, match, match_any, find, contains, show, subterms
from ..domains import polarity, POS, NEG, ZERO
from .base import obligation, src, callee_name, if_branches, split_if, guard_equivalents
from .C04 import pattern_term, returns, enclosing_loop, _inside

M = 'elfi.methods.mcmc'
DRAWS = {'randn', 'rand', 'exponential', 'normal', 'uniform', 'standard_normal', 'random',
         'random_sample', 'choice', 'randint', 'multivariate_normal', 'permutation', 'shuffle'}


def local_assigned(ctx, fn, pat):
    """Names of locals that are assigned a value matching pat (raw terms)."""
    ex = ctx.ex(fn)
    out = []
    for n in own_nodes(fn.node):
        if isinstance(n, ast.Assign) and len(n.targets) == 1 and isinstance(n.targets[0], ast.Name):
            if match(ex.raw(n.value), pattern(pat)) is not None or \
                    match(ex.raw_t(n.value), pattern(pat)) is not None:
                out.append((n.targets[0].id, n))
    return out


def gen_name(ctx, fn):
    g = local_assigned(ctx, fn, 'np.random.RandomState(seed)')
    if len(g) != 1:
        return None, None
    return g[0]


@obligation('C09-a', 'T10 T3', 'every draw is made on the generator seeded by the entry function',
            floor=8, necessary='a draw on the global generator makes the chain depend on ambient '
                               'state instead of the seed')
def c09_a(ctx):
    mod = ctx.repo.module(M)
    entries = [ctx.fn(M + ':metropolis'), ctx.fn(M + ':nuts')]
    n_draws = 0
    helpers = []
    for f in entries:
        ex = ctx.ex(f)
        g, gnode = gen_name(ctx, f)
        ctx.check(g is not None, f, 'generator seeded from the seed argument',
                  'random_state = np.random.RandomState(seed)',
                  'the entry function does not create exactly one RandomState(seed)', fn=f,
                  node=gnode or f.node)
        rebinds = [n for n in own_nodes(f.node) if isinstance(n, (ast.Assign, ast.AugAssign)) and
                   any(isinstance(t, ast.Name) and t.id == g
                       for t in (n.targets if isinstance(n, ast.Assign) else [n.target]))]
        ctx.check(len(rebinds) == 1, f, 'generator bound once', 'never rebound',
                  'the generator variable is rebound', fn=f, node=f.node)
        for n in own_nodes(f.node):
            if isinstance(n, ast.Call) and isinstance(n.func, ast.Attribute) and \
                    n.func.attr in DRAWS:
                recv = ex.raw(n.func.value)
                if recv[0] == 'global' and recv[1].startswith('scipy'):
                    continue
                n_draws += 1
                ok = recv == ('name', g)
                ctx.check(ok, f, 'draw on the seeded generator', src(n)[:50],
                          '`{}` does not draw from the generator seeded by `seed`'.format(
                              src(n)[:60]), fn=f, node=n)
        for (c, ts) in ctx.cg.calls(f):
            for t in ts:
                if t.module is mod and t not in entries and t not in helpers and \
                        any(isinstance(x, ast.Call) and isinstance(x.func, ast.Attribute) and
                            x.func.attr in DRAWS for x in own_nodes(t.node)):
                    helpers.append(t)
                if t in helpers:
                    # the generator is handed over
                    args = [ex.raw(a) for a in c.args]
                    ok = ('name', g) in args
                    ctx.check(ok, f, 'generator handed to the helper', src(c)[:40] + '...',
                              'the helper {} is not given the seeded generator'.format(t.name),
                              fn=f, node=c)
    for h in helpers:
        ex = ctx.ex(h)
        gp = [p for p in h.params if p == 'random_state']
        for n in own_nodes(h.node):
            if isinstance(n, ast.Call) and isinstance(n.func, ast.Attribute) and \
                    n.func.attr in DRAWS:
                n_draws += 1
                recv = ex.term(n.func.value)
                ok = recv[0] == 'param'
                ctx.check(ok, h, 'helper draws on the generator it was given', src(n)[:50],
                          '`{}` draws from {} instead of the generator parameter'.format(
                              src(n)[:50], show(recv)), fn=h, node=n)
        # recursive calls pass the same generator parameter on
        for (c, ts) in ctx.cg.calls(h):
            if h in ts:
                ok = any(ex.term(a)[0] == 'param' and ex.term(a)[1] in ('random_state',)
                         for a in c.args) or \
                    any(ex.term(a) == ('param', h.params[-1]) for a in c.args)
                ctx.check(ok, h, 'generator passed down the recursion', 'same parameter',
                          'a recursive call does not pass the generator on', fn=h, node=c)
    # nothing global in the module's samplers
    for f in entries + helpers:
        for n in own_nodes(f.node):
            if isinstance(n, ast.Attribute):
                d = ctx.repo.dotted_of(f.module, n)
                p = getattr(n, '_parent', None)
                if d and d.startswith('numpy.random.') and d != 'numpy.random.RandomState' and \
                        not (isinstance(p, ast.Attribute) and p.value is n):
                    ctx.bad(f, 'global generator', '`{}` uses the global numpy generator'.format(
                        src(n)), fn=f, node=n)
    if n_draws < 8:
        ctx.undecided('expected >= 8 draws, found {}'.format(n_draws))


@obligation('C09-b', 'T11', 'chains start from and stay on points with finite log-target',
            floor=4, necessary='without the guards a state with log-target -inf or NaN can be '
                               'output')
def c09_b(ctx):
    for name in ('metropolis', 'nuts'):
        f = ctx.fn(M + ':' + name)
        ex = ctx.ex(f)
        ok = False
        for r in ctx.stmts(f, ast.Raise):
            for (t, pol, _) in ctx.guards(f, r):
                if pol and match_any(t, ('np.isinf(target(params0))',
                                         'not np.isfinite(target(params0))')) is not None:
                    if enclosing_loop(r) is None:
                        ok = True
        ctx.check(ok, f, 'invalid start refused', 'raise when target(params0) is infinite',
                  '{} accepts a starting point with infinite log-target'.format(name), fn=f,
                  node=f.node)
    f = ctx.fn(M + ':metropolis')
    ex = ctx.ex(f)
    r = _metropolis_roles(ctx, f)
    if r is None or not r['restores']:
        ctx.undecided('Metropolis loop shape not recognised')
    cur = r['cur']
    has_inf = any(match(p, pattern('np.isinf({})'.format(cur))) is not None for p in r['tests'])
    has_nan = any(match(p, pattern('np.isnan({})'.format(cur))) is not None for p in r['tests'])
    has_fin = any(match(p, pattern('not np.isfinite({})'.format(cur))) is not None
                  for p in r['tests'])
    ctx.check((has_inf and has_nan) or has_fin, f, 'non-finite proposals rejected',
              'previous state restored when the proposed log-target is inf or NaN',
              'no branch restores the previous state for both infinite and NaN log-targets '
              '(conditions found: {})'.format([show(t)[:40] for t in r['tests']]), fn=f,
              node=r['restores'][0][2])
    # NUTS: a tree leaf is eligible only when the slice variable is below its joint density
    bt = [g for g in ctx.reachable([ctx.fn(M + ':nuts')], depth=1, may=False)
          if g.module.name == M and g.name != 'nuts' and
          any(isinstance(n, ast.Call) and ctx.ex(g).term(n.func) == ('param', 'grad_target')
              for n in own_nodes(g.node))]
    if not bt:
        raise AnchorMissing('NUTS tree helper not found')
    g = bt[0]
    exg = ctx.ex(g)
    ok = False
    for n in own_nodes(g.node):
        if isinstance(n, ast.Compare):
            t = exg.term(n)
            if t[0] == 'cmp' and t[1] == '<=' and t[2] == ('param', 'log_slicevar') and \
                    contains(t[3], 'target(_)'):
                p = polarity(t[3], lambda x: x[0] == 'call' and x[1] == ('param', 'target'))
                if p == POS:
                    ok = True
    ctx.check(ok, g, 'leaf eligibility', 'n_ok = (log_slicevar <= target(new) - kinetic)',
              'a leaf is not made eligible exactly when the slice variable is <= its joint log '
              'density (which excludes -inf and NaN targets)', fn=g, node=g.node)


def _metropolis_roles(ctx, f):
    """Roles in the Metropolis loop, discovered by dataflow (never by local names).

    Returns dict(loop, ii, buf, cur, prev, cur_def, prev_def, restores=[(stmt, block, if)],
    tests=[raw terms of the conditions under which a restore happens]) or None.
    """
    ex = ctx.ex(f)
    bufs = local_assigned(ctx, f, 'np.empty((n_samples + warmup + 1,) + params0.shape)')
    loops = [n for n in own_nodes(f.node) if isinstance(n, ast.For) and
             isinstance(n.target, ast.Name)]
    if len(bufs) != 1 or not loops:
        return None
    buf, lo = bufs[0][0], loops[0]
    ii = lo.target.id
    cur_defs = [n for n in ast.walk(lo) if isinstance(n, ast.Assign) and
                isinstance(n.targets[0], ast.Name) and
                match(ex.raw_t(n.value), pattern('target({}[{}, :])'.format(buf, ii))) is not None]
    if len(cur_defs) != 1:
        return None
    cur = cur_defs[0].targets[0].id
    prev_defs = [n for n in lo.body if isinstance(n, ast.Assign) and
                 isinstance(n.targets[0], ast.Name) and ex.raw(n.value) == ('name', cur)]
    if len(prev_defs) != 1:
        return None
    prev = prev_defs[0].targets[0].id
    restores = []
    for n in ast.walk(lo):
        if isinstance(n, ast.If):
            for block in (n.body, n.orelse):
                for s in block:
                    if isinstance(s, ast.Assign) and \
                            match(ex.raw(s.targets[0]), pattern('{}[{}, :]'.format(buf, ii))) \
                            is not None and \
                            match(ex.raw(s.value), pattern('{}[{} - 1, :]'.format(buf, ii))) \
                            is not None:
                        restores.append((s, block, n, block is n.body))
    tests = []
    from .base import negate_term
    for (s, block, ifn, in_body) in restores:
        t = ex.raw(ifn.test)
        if t[0] == 'name':
            t = ex.raw1(ifn.test)
        if not in_body:
            t = t[2] if (t[0] == 'unary' and t[1] == 'not') else negate_term(t)
            if t is None:
                continue
        while t[0] == 'unary' and t[1] == 'not' and t[2][0] == 'unary' and t[2][1] == 'not':
            t = t[2][2]
        parts = list(t[2]) if t[0] == 'bool' and t[1] == 'or' else [t]
        for p in parts:
            if p[0] == 'name':
                # a named sub-condition
                for nme in ast.walk(ifn.test):
                    if isinstance(nme, ast.Name) and nme.id == p[1]:
                        p = ex.raw1(nme)
                        break
            tests.append(p)
    return {'loop': lo, 'ii': ii, 'buf': buf, 'cur': cur, 'prev': prev, 'cur_def': cur_defs[0],
            'prev_def': prev_defs[0], 'restores': restores, 'tests': tests}


@obligation('C09-c', 'T4 T6', 'accept iff uniform draw < exp(new - old)', floor=2,
            necessary='an inverted ratio or comparison accepts downhill moves and rejects uphill '
                      'ones')
def c09_c(ctx):
    f = ctx.fn(M + ':metropolis')
    ex = ctx.ex(f)
    r = _metropolis_roles(ctx, f)
    if r is None or not r['restores']:
        ctx.undecided('Metropolis loop shape not recognised')
    g, _ = gen_name(ctx, f)
    want = pattern('np.exp({} - {}) < {}.rand()'.format(r['cur'], r['prev'], g))
    ok = any(match(t, want) is not None for t in r['tests'])
    ctx.check(ok, f, 'rejection condition', 'reject when exp(new - old) < u',
              'no branch restores the previous state under exp(new - old) < uniform draw '
              '(conditions found: {})'.format([show(t)[:50] for t in r['tests']]), fn=f,
              node=r['restores'][0][2])
    ok = ctx.must_precede(f, [r['prev_def']], r['cur_def']) and \
        not _inside(r['cur_def'], r['restores'][0][2])
    ctx.check(ok, f, 'new and old log-target', 'old saved, then new = target(proposed row)',
              'the compared values are not (target of the proposed row, value before the '
              'proposal)', fn=f, node=r['cur_def'])


@obligation('C09-d', 'T7', 'a rejected proposal restores both the state and its cached '
            'log-target', floor=2, necessary='restoring only one of them compares the next '
                                             'proposal against the wrong value')
def c09_d(ctx):
    f = ctx.fn(M + ':metropolis')
    ex = ctx.ex(f)
    r = _metropolis_roles(ctx, f)
    if r is None or not r['restores']:
        ctx.undecided('Metropolis loop shape not recognised')
    for (s, block, ifn, in_body) in r['restores']:
        cache = any(isinstance(x, ast.Assign) and ex.raw(x.targets[0]) == ('name', r['cur']) and
                    ex.raw(x.value) == ('name', r['prev']) for x in block)
        ctx.check(cache, f, 'state and cached log-target restored together',
                  'samples[ii] = samples[ii - 1] with current = previous',
                  'a branch puts the previous state back but leaves the cached log-target of the '
                  'rejected proposal in place', fn=f, node=s)
    # no branch restores the cache without the row
    for n in ast.walk(r['loop']):
        if isinstance(n, ast.If):
            for block in (n.body, n.orelse):
                c = [x for x in block if isinstance(x, ast.Assign) and
                     ex.raw(x.targets[0]) == ('name', r['cur']) and
                     ex.raw(x.value) == ('name', r['prev'])]
                rw = [x for (x, b, i, ib) in r['restores'] if b is block]
                if c and not rw:
                    ctx.bad(f, 'state and cached log-target restored together',
                            'a branch restores the cached log-target but keeps the proposed state',
                            fn=f, node=c[0])
    # the keep path does not touch row or cache
    keep_blocks = []
    for (s, block, ifn, in_body) in r['restores']:
        other = ifn.orelse if in_body else ifn.body
        if other and not any(b is other for (x, b, i, ib) in r['restores']) and \
                not (len(other) == 1 and isinstance(other[0], ast.If)):
            keep_blocks.append(other)
    bad = [x for blk in keep_blocks for x in blk if isinstance(x, ast.Assign) and
           (ex.raw(x.targets[0]) == ('name', r['cur']) or
            (isinstance(x.targets[0], ast.Subscript) and
             isinstance(x.targets[0].value, ast.Name) and x.targets[0].value.id == r['buf']))]
    ctx.check(not bad, f, 'accepted proposal kept', 'no overwrite on acceptance',
              'the accepted branch overwrites the state or the cached log-target', fn=f,
              node=bad[0] if bad else r['restores'][0][2])


def _float_buffer(ctx, fn, bufs):
    """The chain buffer holds floats whatever the dtype of the start point."""
    for (name, stmt) in bufs:
        c = stmt.value
        ex = ctx.ex(fn)
        dt = [ex.raw(k.value) for k in c.keywords if k.arg == 'dtype'] if isinstance(c, ast.Call) \
            else []
        if isinstance(c, ast.Call) and len(c.args) > 1:
            dt.append(ex.raw(c.args[1]))
        ok = all(d in (('name', 'float'), ('global', 'builtins.float'), ('global', 'numpy.float64'),
                       ('const', 'float64'), ('const', 'float'), ('global', 'numpy.double'))
                 for d in dt)
        ctx.check(ok, fn, 'chain buffer is a float array', 'np.empty(shape) (float64)',
                  'the chain buffer takes its dtype from {}: with an integer start point every '
                  'stored state is truncated and the next iteration restarts from the truncated '
                  'row'.format([show(d) for d in dt]), fn=fn, node=stmt)


@obligation('C09-e', 'T5', 'the requested number of states is returned', floor=4,
            necessary='an off-by-one returns the start point or loses a sample')
def c09_e(ctx):
    f = ctx.fn(M + ':metropolis')
    ex = ctx.ex(f)
    bufs = local_assigned(ctx, f, 'np.empty((n_samples + warmup + 1,) + params0.shape)')
    ctx.check(len(bufs) == 1, f, 'allocation', 'n_samples + warmup + 1 rows',
              'the chain buffer does not have n_samples + warmup + 1 rows', fn=f,
              node=bufs[0][1] if bufs else f.node)
    rr = returns(f)
    ok = len(rr) == 1 and bool(bufs) and match_any(
        ex.raw1(rr[0].value), ('{}[1 + warmup:, :]'.format(bufs[0][0]),
                              '{}[warmup + 1:, :]'.format(bufs[0][0]),
                              '{}[1 + warmup:]'.format(bufs[0][0]))) is not None
    ctx.check(ok, f, 'warm-up and start point dropped', 'samples[1 + warmup:]',
              'the returned slice is `{}`'.format(src(rr[0].value) if rr else None), fn=f,
              node=rr[0] if rr else f.node)
    loops = [n for n in own_nodes(f.node) if isinstance(n, ast.For)]
    ok = bool(loops) and match(ex.raw(loops[0].iter),
                               pattern('range(1, n_samples + warmup + 1)')) is not None
    ctx.check(ok, f, 'one step per row', 'for ii in range(1, n_samples + warmup + 1)',
              'the loop range is `{}`'.format(src(loops[0].iter) if loops else None), fn=f,
              node=loops[0] if loops else f.node)
    st0 = [n for n in own_nodes(f.node) if isinstance(n, ast.Assign) and bufs and
           match(ex.raw(n.targets[0]), pattern('{}[0, :]'.format(bufs[0][0]))) is not None and
           ex.raw(n.value) == ('name', 'params0') or
           (isinstance(n, ast.Assign) and bufs and
            match(ex.raw(n.targets[0]), pattern('{}[0, :]'.format(bufs[0][0]))) is not None and
            ex.term(n.value) == ('param', 'params0'))]
    ctx.check(bool(st0), f, 'row 0 is the start point', 'samples[0] = params0',
              'row 0 is not initialised with the start point', fn=f, node=f.node)
    _float_buffer(ctx, f, bufs)
    g = ctx.fn(M + ':nuts')
    exg = ctx.ex(g)
    bufs = local_assigned(ctx, g, 'np.empty((n_iter + 1,) + params0.shape)')
    _float_buffer(ctx, g, bufs)
    ctx.check(len(bufs) == 1, g, 'allocation', 'n_iter + 1 rows',
              'the NUTS buffer does not have n_iter + 1 rows', fn=g,
              node=bufs[0][1] if bufs else g.node)
    rr = returns(g)
    ok = len(rr) == 1 and bool(bufs) and match_any(
        exg.raw1(rr[0].value), ('{}[1:, :]'.format(bufs[0][0]), '{}[1:]'.format(bufs[0][0]))) \
        is not None
    ctx.check(ok, g, 'start point dropped', 'samples[1:]',
              'the returned slice is `{}`'.format(src(rr[0].value) if rr else None), fn=g,
              node=rr[0] if rr else g.node)
    loops = [n for n in own_nodes(g.node) if isinstance(n, ast.For)]
    ok = bool(loops) and match(exg.raw(loops[0].iter), pattern('range(1, n_iter + 1)')) is not None
    ctx.check(ok, g, 'one iteration per row', 'for ii in range(1, n_iter + 1)',
              'the loop range is `{}`'.format(src(loops[0].iter) if loops else None), fn=g,
              node=loops[0] if loops else g.node)


@obligation('C09-f', 'T5', 'proposal = previous state + sigma x standard normal', floor=1,
            necessary='another proposal is not the random-walk chain the property defines')
def c09_f(ctx):
    f = ctx.fn(M + ':metropolis')
    ex = ctx.ex(f)
    g, _ = gen_name(ctx, f)
    r = _metropolis_roles(ctx, f)
    if r is None:
        ctx.undecided('Metropolis loop shape not recognised')
    buf, ii = r['buf'], r['ii']
    ifn = r['restores'][0][2] if r['restores'] else r['loop']
    props = [n for n in own_nodes(f.node) if isinstance(n, ast.Assign) and
             enclosing_loop(n) is not None and
             not any(n is x for (x, b, i, ib) in (r['restores'] or [])) and
             match(ex.raw(n.targets[0]), pattern('{}[{}, :]'.format(buf, ii))) is not None]
    ok = len(props) == 1 and match_any(
        ex.raw(props[0].value),
        ('{b}[{i} - 1, :] + sigma_proposals * {g}.randn(*params0.shape)'.format(b=buf, i=ii, g=g),
         '{b}[{i} - 1, :] + {g}.randn(*params0.shape) * sigma_proposals'.format(b=buf, i=ii, g=g)
         )) is not None
    ctx.check(ok, f, 'random-walk proposal', 'samples[ii-1] + sigma_proposals * randn',
              'the proposal is `{}`'.format(src(props[0].value) if props else None), fn=f,
              node=props[0] if props else f.node)


@obligation('C09-g', 'T5 T6', 'NUTS adapts the step size for exactly n_adapt iterations', floor=2,
            necessary='a shifted window adapts during sampling or fixes the step size early')
def c09_g(ctx):
    g = ctx.fn(M + ':nuts')
    ex = ctx.ex(g)
    loops = [n for n in own_nodes(g.node) if isinstance(n, ast.For)]
    if not loops or not isinstance(loops[0].target, ast.Name):
        raise AnchorMissing('NUTS main loop')
    ii = loops[0].target.id
    sel = None
    for n in ast.walk(loops[0]):
        if isinstance(n, ast.If) and match(ex.raw(n.test),
                                           pattern('{} <= n_adapt'.format(ii))) is not None:
            sel = n
    ctx.check(sel is not None, g, 'adaptation window', 'if ii <= n_adapt',
              'step-size adaptation is not guarded by ii <= n_adapt', fn=g, node=loops[0])
    if sel is None:
        return
    fin = None
    for n in sel.orelse:
        if isinstance(n, ast.If) and match_any(ex.raw(n.test),
                                               ('{} == n_adapt + 1'.format(ii),
                                                '{} == 1 + n_adapt'.format(ii))) is not None:
            fin = n
    ctx.check(fin is not None, g, 'final step size', 'elif ii == n_adapt + 1',
              'the final step size is not fixed exactly at ii == n_adapt + 1', fn=g, node=sel)
    if fin is not None:
        ok = any(isinstance(s, ast.Assign) and
                 match(ex.raw(s.value), pattern('np.exp(_a)')) is not None and
                 isinstance(s.targets[0], ast.Name) for s in fin.body)
        ctx.check(ok, g, 'averaged step size adopted', 'stepsize = exp(log_avg_stepsize)',
                  'the averaged step size is not adopted when adaptation ends', fn=g, node=fin)
    d = [n for n in own_nodes(g.node) if isinstance(n, ast.Assign) and
         isinstance(n.targets[0], ast.Name) and n.targets[0].id == 'n_adapt']
    ok = bool(d) and match(ex.raw(d[0].value),
                           pattern('n_adapt if n_adapt is not None else n_iter // 2')) is not None
    ctx.check(ok, g, 'default adaptation length', 'n_iter // 2 when not given',
              'n_adapt does not default to n_iter // 2', fn=g, node=d[0] if d else g.node)
    # the state defaults to the previous one and is replaced only by an eligible sub-tree point
    dflt = [n for n in ast.walk(loops[0]) if isinstance(n, ast.Assign) and
            match(ex.raw(n.targets[0]), pattern('_s[{}, :]'.format(ii))) is not None]
    prev_ok = any(contains(ex.term(n.value), '_s[{} - 1, :]'.format(ii)) or
                  match(ex.term(n.value), pattern('_s[_i - 1, :]')) is not None for n in dflt)
    acc = [n for n in dflt if not prev_ok or not match(ex.term(n.value),
                                                       pattern('_s[_i - 1, :]'))]
    g_ok = all(any(pol and match(t, pattern('_x == 1')) is not None or
                   pol and contains(t, 'sub_ok') for (t, pol, _) in ctx.guards(g, n))
               for n in acc if not (match(ex.term(n.value), pattern('_s[_i - 1, :]')) is not None))
    ctx.check(prev_ok and g_ok, g, 'state is the previous one unless a valid proposal is accepted',
              'samples[ii] = previous; replaced only under sub_ok',
              'the new state is not (previous state | proposal accepted from a valid sub-tree)',
              fn=g, node=dflt[0] if dflt else loops[0])


def _tree_calls(ctx, f, helper):
    """[(assign stmt, call, target names)] for every `a, b, ... = helper(...)` in f."""
    out = []
    for n in own_nodes(f.node):
        if isinstance(n, ast.Assign) and isinstance(n.value, ast.Call) and \
                isinstance(n.targets[0], ast.Tuple) and helper in ctx.cg.resolve(f, n.value):
            names = [e.id if isinstance(e, ast.Name) else None for e in n.targets[0].elts]
            out.append((n, n.value, names))
    return out


@obligation('C09-h', 'T7 T4', 'NUTS: a sub-tree is grown from the end it updates; leapfrog and '
            'slice have their textbook shape', floor=8,
            necessary='a tree grown from one end but written to the other, or a leapfrog with a '
                      'flipped sign, does not leave the target invariant')
def c09_h(ctx):
    nuts = ctx.fn(M + ':nuts')
    helpers = [g for g in ctx.reachable([nuts], depth=1, may=False)
               if g.module.name == M and g is not nuts and
               any(isinstance(n, ast.Call) and ctx.ex(g).term(n.func) == ('param', 'grad_target')
                   for n in own_nodes(g.node))]
    if not helpers:
        raise AnchorMissing('NUTS tree helper')
    bt = helpers[0]
    hp = bt.params   # params, momentum, log_slicevar, step, depth, log_joint0, target, grad, rs
    for f in (nuts, bt):
        ex = ctx.ex(f)
        calls = _tree_calls(ctx, f, bt)
        ends = {}
        for (stmt, call, names) in calls:
            a = [ex.raw(x) for x in call.args]
            if len(a) != len(hp) or len(names) != 11:
                ctx.undecided('unexpected arity of the tree helper call at ' + f.where(stmt))
            start = (a[0], a[1])
            if names[0] and names[1] and not names[2] or (names[0] and names[1] and
                                                          names[2] == '_' ):
                side = 'left'
                upd = (('name', names[0]), ('name', names[1]))
            elif names[2] and names[3] and (names[0] in (None, '_')):
                side = 'right'
                upd = (('name', names[2]), ('name', names[3]))
            else:
                # the first call inside the helper fills both ends from the given state
                side = 'both'
                upd = None
            if upd is not None:
                ctx.check(start == upd, f, 'sub-tree grown from the end it updates (' + side + ')',
                          'start state = ({}, {}) = updated state'.format(show(a[0]), show(a[1])),
                          'the {} sub-tree starts from ({}, {}) but updates ({}, {})'.format(
                              side, show(a[0]), show(a[1]), show(upd[0]), show(upd[1])), fn=f,
                          node=call)
                ends[side] = upd
                # direction of the step
                stp = a[3]
                if f is nuts:
                    neg = stp[0] == 'unary' and stp[1] == '-'
                    ctx.check(neg == (side == 'left'), f, 'step sign of the ' + side + ' sub-tree',
                              'left: -stepsize, right: +stepsize',
                              'the {} sub-tree is grown with step {}'.format(side, show(stp)),
                              fn=f, node=call)
                else:
                    ctx.check(stp == ('name', hp[3]), f, 'step passed down unchanged', '',
                              'a recursive call changes the step', fn=f, node=call)
                    g = ctx.guards(f, stmt)
                    want_neg = side == 'left'
                    okg = any((pol == want_neg) and match(t, pattern('{} < 0'.format(hp[3])))
                              is not None for (t, pol, _) in g)
                    ctx.check(okg, f, side + ' extension chosen by the sign of the step',
                              'step < 0 extends the left end',
                              'the {} end is extended under the wrong sign of the step'.format(
                                  side), fn=f, node=call)
            # invariants handed down
            same = [(2, 'log_slicevar'), (5, 'log_joint0'), (6, 'target'), (7, 'grad_target'),
                    (8, 'random_state')]
            if f is bt:
                ok = all(a[i] == ('name', hp[i]) for (i, _) in same)
                okd = a[4] == ('binop', '-', ('name', hp[4]), ('const', 1))
                ctx.check(ok and okd, f, 'recursion passes the slice, target and generator on, '
                          'depth - 1', '', 'a recursive call changes slice variable / target / '
                          'generator or does not reduce the depth by one', fn=f, node=call)
        if 'left' in ends and 'right' in ends:
            L, R = ends['left'], ends['right']
            ctx.check(L != R, f, 'two distinct ends', '', 'left and right end are the same '
                      'variables', fn=f, node=f.node)
            # U-turn test: (right - left) . momentum_left >= 0 and . momentum_right >= 0
            ut = 0
            for n in own_nodes(f.node):
                if isinstance(n, ast.Compare):
                    t = ex.raw(n)
                    for mom in (L[1], R[1]):
                        if t == ('cmp', '<=', ('const', 0),
                                 ('call', ('global', 'numpy.inner'),
                                  (('binop', '-', R[0], L[0]), mom), ())):
                            ut += 1
            ctx.check(ut >= 2, f, 'U-turn test', 'inner(right - left, momentum_end) >= 0 for both '
                      'ends', 'the no-U-turn condition is not inner(params_right - params_left, '
                      'momentum) >= 0 for both momenta', fn=f, node=f.node)
    # leapfrog in the base case: exact normal forms (algebraic rewrites of the same map pass)
    from .. import symdiff as sd
    from ..ratfun import Rat, Unsupported
    ex = ctx.ex(bt)
    P, Mo, SL, ST, LJ0, TG, G = hp[0], hp[1], hp[2], hp[3], hp[5], hp[6], hp[7]
    alg = sd.Algebra()
    q, p_, eps, u, lj0 = (Rat.sym(x) for x in ('q', 'p', 'eps', 'u', 'lj0'))

    def atom(kind, arg):
        return alg._atom(kind, (arg,), lambda s_: Rat.const(0))

    def leaf(t):
        if t == ('param', P):
            return q
        if t == ('param', Mo):
            return p_
        if t == ('param', ST):
            return eps
        if t == ('param', SL):
            return u
        if t == ('param', LJ0):
            return lj0
        if t[0] == 'call' and t[1] == ('param', G) and len(t[2]) == 1:
            return atom('grad', conv(t[2][0]))
        if t[0] == 'call' and t[1] == ('param', TG) and len(t[2]) == 1:
            return atom('target', conv(t[2][0]))
        if t[0] == 'call' and t[1] == ('global', 'numpy.inner') and len(t[2]) == 2:
            return conv(t[2][0]) * conv(t[2][1])      # one-dimensional specialisation
        if t[0] == 'call' and t[1] in (('global', 'numpy.dot'),) and len(t[2]) == 2:
            return conv(t[2][0]) * conv(t[2][1])
        return None

    def conv(t):
        return sd.convert(t, alg, leaf)
    base_rets = [r for r in returns(bt)
                 if ex.term(r.value)[0] == 'tuple' and len(ex.term(r.value)[1]) == 11 and
                 any(pol and match(t_, pattern('{} == 0'.format(hp[4]))) is not None
                     for (t_, pol, _) in ctx.guards(bt, r))]
    if len(base_rets) != 1:
        ctx.undecided('base-case return of the tree helper not identified ({})'.format(
            len(base_rets)))
    br = base_rets[0]
    half = Rat.const(sd.Fraction(1, 2))
    try:
        items = list(ex.term(br.value)[1])
        got_q = [conv(items[i]) for i in (0, 2, 4)]
        got_p = [conv(items[i]) for i in (1, 3)]
        ph = p_ + half * eps * atom('grad', q)
        q1 = q + eps * ph
        p1 = ph + half * eps * atom('grad', q1)
        ok_q = all(alg.same(g_, q1) for g_ in got_q)
        ok_p = all(alg.same(g_, p1) for g_ in got_p)
    except Unsupported as e:
        ctx.undecided('leapfrog outside the fragment: {}'.format(e))
    ctx.check(ok_q, bt, 'leapfrog position: q + eps (p + eps/2 grad(q))',
              'returned as left end, right end and proposal',
              'the new position of the base case is not q + eps * (p + eps/2 * grad(q))', fn=bt,
              node=br)
    ctx.check(ok_p, bt, 'leapfrog momentum: two half steps around the position step',
              'p + eps/2 grad(q) + eps/2 grad(q_new)',
              'the new momentum of the base case is not p + eps/2 grad(q) + eps/2 grad(q_new)',
              fn=bt, node=br)
    # joint density, slice membership, divergence test, acceptance statistic
    LJ = atom('target', q1) - half * p1 * p1
    cmps = []
    for n_ in own_nodes(bt.node):
        if isinstance(n_, ast.Compare) and len(n_.ops) == 1 and \
                any(pol and match(t_, pattern('{} == 0'.format(hp[4]))) is not None
                    for (t_, pol, _) in ctx.guards(bt, n_)):
            t = ex.term(n_)
            if t[0] == 'cmp' and t[1] in ('<', '<='):
                try:
                    cmps.append((n_, t[1], conv(t[2]) - conv(t[3])))
                except Unsupported:
                    pass
    in_slice = [c for c in cmps if c[1] == '<=' and alg.same(c[2], u - LJ)]
    no_div = [c for c in cmps if c[1] == '<' and alg.same(c[2], u - (Rat.const(1000) + LJ))]
    ctx.check(bool(in_slice), bt, 'slice membership of the new state', 'log_slicevar <= log_joint',
              'the base case does not count the new state iff log_slicevar <= target(q_new) - '
              '|p_new|^2 / 2', fn=bt, node=in_slice[0][0] if in_slice else br)
    ctx.check(bool(no_div), bt, 'divergence test', 'log_slicevar < 1000 + log_joint',
              'the divergence test is not log_slicevar < 1000 + log_joint', fn=bt,
              node=no_div[0][0] if no_div else br)
    okm = False
    alts = list(items[7][1]) if items[7][0] == 'phi' else [items[7]]
    rest_zero = all(a in (('const', 0.0), ('const', 0)) for a in alts
                    if not (a[0] == 'call'))
    for mh_t in [a for a in alts if a[0] == 'call']:
      if mh_t[0] == 'call' and mh_t[1] in (('global', 'builtins.min'), ('global', 'min'),
                                         ('name', 'min'), ('global', 'numpy.minimum')) and \
            len(mh_t[2]) == 2:
        a_, b_ = mh_t[2]
        for (one, e_) in ((a_, b_), (b_, a_)):
            if one in (('const', 1.0), ('const', 1)) and e_[0] == 'call' and \
                    e_[1] in (('global', 'numpy.exp'), ('global', 'math.exp')):
                try:
                    okm = alg.same(conv(e_[2][0]), LJ - lj0) and rest_zero
                except Unsupported:
                    okm = False
    ctx.check(okm, bt, 'acceptance statistic', 'min(1, exp(log_joint - log_joint0))',
              'the acceptance statistic of the base case is not min(1, exp(log_joint - '
              'log_joint0))', fn=bt, node=br)
    # slice variable and initial joint in the main loop
    exn = ctx.ex(nuts)
    asgn = [n for n in own_nodes(nuts.node) if isinstance(n, ast.Assign) and
            isinstance(n.targets[0], ast.Name) and enclosing_loop(n) is not None]
    j0 = [n for n in asgn if match(exn.raw(n.value),
                                   pattern('target(_p) - 0.5 * np.inner(_m, _m)')) is not None and
          isinstance(enclosing_loop(n), ast.For)]
    ok = bool(j0)
    sv = []
    if ok:
        jn = j0[0].targets[0].id
        g, _ = gen_name(ctx, nuts)
        sv = [n for n in asgn if exn.raw(n.value) ==
              ('binop', '-', ('name', jn), pattern('{}.exponential()'.format(g)))
              or match(exn.raw(n.value), pattern('{} - {}.exponential()'.format(jn, g))) is not None]
    ctx.check(ok and bool(sv), nuts, 'slice variable', 'log_slicevar = log_joint0 - Exp(1) draw',
              'the slice variable is not log_joint0 minus an exponential draw from the seeded '
              'generator', fn=nuts, node=sv[0] if sv else (j0[0] if j0 else nuts.node))
    # a proposal is taken over only from a valid sub-tree, with probability n_sub / n_ok
    acc = [n for n in own_nodes(nuts.node) if isinstance(n, ast.Compare) and
           match(exn.raw(n), pattern('_g.rand() < float(_a) / _b')) is not None]
    ctx.check(bool(acc), nuts, 'sub-tree proposal accepted with probability n_sub / n_ok',
              'rand() < float(n_sub) / n_ok', 'the sub-tree proposal is not accepted with '
              'probability n_sub / n_ok', fn=nuts, node=acc[0] if acc else nuts.node)


@obligation('C09-i', 'T2 T6', 'a counter that can still hold its reset value 0 is never a divisor',
            floor=1,
            necessary='a division by a counter on a path from its reset without an increment '
                      'raises ZeroDivisionError instead of returning the chain')
def c09_i(ctx):
    n = 0
    for f in (ctx.fn(M + ':nuts'), ctx.fn(M + ':metropolis')):
        ex = ctx.ex(f)
        g = cfg_of(f)
        zero_assigns = {}
        for s in own_nodes(f.node):
            if isinstance(s, ast.Assign) and len(s.targets) == 1 and \
                    isinstance(s.targets[0], ast.Name) and \
                    isinstance(s.value, ast.Constant) and s.value.value == 0 and \
                    not isinstance(s.value.value, bool):
                zero_assigns.setdefault(s.targets[0].id, []).append(s)
        for d in own_nodes(f.node):
            if not (isinstance(d, ast.BinOp) and isinstance(d.op, (ast.Div, ast.FloorDiv, ast.Mod))
                    and isinstance(d.right, ast.Name) and d.right.id in zero_assigns):
                continue
            v = d.right.id
            n += 1
            stmt = d
            while not isinstance(stmt, ast.stmt):
                stmt = stmt._parent
            # a dominating positivity fact makes the division safe
            guarded = any(
                (pol and match_any(t, ('0 < {}'.format(v), '{} != 0'.format(v),
                                       '1 <= {}'.format(v))) is not None) or
                (pol and t == ('name', v)) or
                ((not pol) and match_any(t, ('{} == 0'.format(v), '{} <= 0'.format(v),
                                             '{} < 1'.format(v))) is not None)
                for (t, pol, _) in [(t2, p2, tast)
                                    for (_t, pol0, tast) in ctx.guards(f, stmt)
                                    for (t2, p2) in guard_equivalents(ex.raw(tast), pol0)])
            if guarded:
                ctx.ok(f, 'division by `{}` under a positivity guard'.format(v), src(d)[:60],
                       fn=f, node=d)
                continue
            incs = [ctx.node(f, s) for s in own_nodes(f.node)
                    if isinstance(s, ast.AugAssign) and isinstance(s.target, ast.Name) and
                    s.target.id == v and isinstance(s.op, ast.Add)]
            bad = [z for z in zero_assigns[v]
                   if g.exists_path(ctx.node(f, z), ctx.node(f, stmt), avoiding=incs)]
            ctx.check(not bad, f, 'division by `{}`'.format(v), src(d)[:60],
                      '`{}` divides by `{}`, which still holds the 0 assigned at line {} on a path '
                      'without an increment (e.g. the reset happens in the last iteration)'
                      .format(src(d)[:60], v, bad[0].lineno if bad else 0), fn=f, node=d)
    if n < 1:
        ctx.undecided('expected at least one division by a counter in the samplers')


@obligation('C09-j', 'T7 T3', 'callers hand the kernels their arguments by role: proposal scales in '
            'parameter order, the warm-up length as the adaptation length, the chain\'s own '
            'sub-seed', floor=6,
            necessary='scales in dict order apply one parameter\'s step to another; a chain '
                      'adapted for another length than the prefix that is dropped is not a chain '
                      'of a fixed kernel after warm-up')
def c09_j(ctx):
    rs = ctx.fn('elfi.methods.utils:resolve_sigmas')
    ex = ctx.ex(rs)
    # dict input is re-ordered by parameter_names
    sts = [s for s in own_nodes(rs.node) if isinstance(s, ast.Assign) and
           isinstance(s.targets[0], ast.Name) and s.targets[0].id == rs.params[1]]
    okd = False
    for s in sts:
        gs = ctx.guards(rs, s)
        if any(pol and match(t, pattern('isinstance({}, dict)'.format(rs.params[1]))) is not None
               for (t, pol, _) in gs):
            v = ex.raw(s.value)
            if v[0] == 'comp' and v[1] == 'list':
                body, gens = v[2], v[3]
                okd = len(gens) == 1 and gens[0][0] in (('name', rs.params[0]),
                                                       ('param', rs.params[0])) and \
                    body[0] == 'sub' and body[1] in (('name', rs.params[1]),
                                                     ('param', rs.params[1]))
    ctx.check(okd, rs, 'dict of scales read in parameter_names order',
              '[sigma_proposals[x] for x in parameter_names]',
              'a dict of proposal scales is not turned into a list in parameter_names order (dict '
              'insertion order gives one parameter another parameter\'s scale)', fn=rs,
              node=sts[0] if sts else rs.node)
    # default: a tenth of each bound interval, in the order of the bounds
    okb = False
    for l in own_nodes(rs.node):
        if isinstance(l, ast.For) and ex.raw(l.iter) in (('name', rs.params[2]),
                                                         ('param', rs.params[2])):
            for c in ast.walk(l):
                if isinstance(c, ast.Call) and isinstance(c.func, ast.Attribute) and \
                        c.func.attr == 'append':
                    okb = True
    ctx.check(okb, rs, 'default scales follow the bounds', 'one scale per bound, in order', '',
              fn=rs, node=rs.node)
    # call sites of the kernels outside mcmc.py
    nuts_f, met_f = ctx.fn(M + ':nuts'), ctx.fn(M + ':metropolis')
    n_sites = 0
    for m in ctx.repo.modules.values():
        if not m.name.startswith('elfi.methods') or m.name == M:
            continue
        for f in m.all_functions:
            if getattr(f, 'node', None) is None or isinstance(f.node, ast.Lambda):
                continue
            exf = ctx.ex(f)
            for c in ctx.calls(f):
                a = [exf.term(x) for x in c.args]
                kw = dict((k.arg, exf.term(k.value)) for k in c.keywords)
                target = None
                args = a
                if a and a[0] == ('global', M.replace(':', '.') + '.nuts') or \
                        (a and a[0] == ('global', 'elfi.methods.mcmc.nuts')):
                    target, args = 'nuts', a[1:]          # client.apply(mcmc.nuts, ...)
                elif a and a[0] == ('global', 'elfi.methods.mcmc.metropolis'):
                    target, args = 'metropolis', a[1:]
                elif exf.term(c.func) == ('global', 'elfi.methods.mcmc.nuts'):
                    target = 'nuts'
                elif exf.term(c.func) == ('global', 'elfi.methods.mcmc.metropolis'):
                    target = 'metropolis'
                if target is None:
                    continue
                n_sites += 1
                # a function that removes a warm-up prefix of its own choosing must adapt /
                # discard for exactly that length
                wu = [p for p in f.all_params if p == 'warmup']
                uses_wu = 'warmup' in [x.id for x in ast.walk(f.node) if isinstance(x, ast.Name)]
                if target == 'nuts' and uses_wu:
                    na = kw.get('n_adapt', args[4] if len(args) > 4 else None)
                    okn = na is not None and (('name', 'warmup') in set(subterms(na)) or
                                              ('param', 'warmup') in set(subterms(na)) or
                                              contains(na, 'warmup'))
                    ctx.check(okn, f, 'NUTS adapts for exactly the warm-up length',
                              'n_adapt=warmup',
                              '{} passes n_adapt={} to nuts although it treats `warmup` states as '
                              'warm-up: with a non-default warm-up the kept states are still '
                              'adapting'.format(f.name, show(na)[:30] if na else 'nothing (default '
                                                'n_iter // 2)'), fn=f, node=c)
                if target == 'metropolis':
                    sg = args[3] if len(args) > 3 else kw.get('sigma_proposals')
                    oksg = sg is not None and (
                        contains(sg, 'resolve_sigmas(*_)') or
                        sg in (pattern_term('self._sigma_proposals'),) or
                        contains(sg, 'sigma_proposals'))
                    ctx.check(oksg, f, 'Metropolis receives the resolved scales',
                              'sigma_proposals from resolve_sigmas',
                              'metropolis is not given the proposal scales resolved in parameter '
                              'order', fn=f, node=c)
                sd_ = kw.get('seed')
                ctx.check(sd_ is not None, f, 'kernel is seeded by the caller', 'seed=...',
                          '{} calls {} without a seed (the default seed 0 is shared by all '
                          'chains)'.format(f.name, target), fn=f, node=c)
    if n_sites < 4:
        ctx.undecided('expected >= 4 call sites of the kernels, found {}'.format(n_sites))


@obligation('C09-k', 'T1 T11 T7', 'NUTS selection: a candidate replaces the current choice only '
            'from a valid sub-tree that has eligible leaves, with probability (new eligible) / '
            '(eligible so far [+ new inside a sub-tree]); the eligible count is advanced after '
            'the draw that uses it; the state of an iteration defaults to the previous state',
            floor=6,
            necessary='a candidate taken from a sub-tree without eligible leaves is a point '
                      'whose log-target may be -inf or NaN; a count advanced before the draw '
                      'changes the selection probability (the chain no longer targets the '
                      'density)')
def c09_k(ctx):
    nuts = ctx.fn(M + ':nuts')
    bt = [g for g in ctx.reachable([nuts], depth=1, may=False)
          if g.module.name == M and g.name != 'nuts' and
          any(isinstance(n, ast.Call) and ctx.ex(g).term(n.func) == ('param', 'grad_target')
              for n in own_nodes(g.node))]
    if not bt:
        raise AnchorMissing('NUTS tree helper not found')
    g = bt[0]
    exg = ctx.ex(g)
    # --- inside the tree: params1 = params2 ---
    rec = [c for c in own_nodes(g.node) if isinstance(c, ast.Call) and
           isinstance(c.func, ast.Name) and c.func.id == g.name]
    # names bound from the recursive calls by position: index 5 = eligible count, 4 = candidate
    firsts, seconds = [], []
    for c in rec:
        st = getattr(c, '_parent', None)
        if isinstance(st, ast.Assign) and isinstance(st.targets[0], ast.Tuple) and \
                len(st.targets[0].elts) == 11:
            el = st.targets[0].elts
            names = [e.id if isinstance(e, ast.Name) else None for e in el]
            depth_ = sum(1 for a in _ancestors(st, g.node) if isinstance(a, ast.If))
            firsts.append((st, names, depth_))
    if firsts:
        dmin = min(d for (_, _, d) in firsts)
        seconds = [(st, n) for (st, n, d) in firsts if d > dmin]
        firsts = [(st, n) for (st, n, d) in firsts if d == dmin]
    if len(firsts) != 1 or len(seconds) < 1 or \
            len(set((n[4], n[5]) for (_, n) in seconds)) != 1:
        ctx.undecided('recursive calls of the tree helper not recognised')
    cand1, cnt1 = firsts[0][1][4], firsts[0][1][5]
    cand2, cnt2 = seconds[0][1][4], seconds[0][1][5]
    acc = [s for s in own_nodes(g.node) if isinstance(s, ast.Assign) and
           isinstance(s.targets[0], ast.Name) and s.targets[0].id == cand1 and
           exg.raw(s.value) == ('name', cand2)]
    ok = len(acc) == 1
    if ok:
        gs = _raw_guards(ctx, g, acc[0])
        has_cnt = any(pol and match_any(t, ('0 < {}'.format(cnt2), '{} > 0'.format(cnt2)))
                      is not None for (t, pol, _) in gs)
        draw = any(pol and match_any(t, (
            '_g.rand() < float({0}) / ({1} + {0})'.format(cnt2, cnt1),
            '_g.rand() < {0} / ({1} + {0})'.format(cnt2, cnt1),
            '_g.rand() < float({0}) / ({0} + {1})'.format(cnt2, cnt1),
            '_g.rand() <= float({0}) / ({1} + {0})'.format(cnt2, cnt1)))
            is not None for (t, pol, _) in gs)
        sub = any(pol and t in (('name', 'sub_ok'),) or
                  (pol and match(t, pattern('sub_ok')) is not None) for (t, pol, _) in gs)
        ok = has_cnt and draw
    ctx.check(ok, g, 'sub-tree candidate taken only if it has eligible leaves, with probability '
              'n2 / (n1 + n2)', 'if n_sub2 > 0: if n_sub2 / (n_sub + n_sub2) > rand(): '
              'params1 = params2',
              'the candidate of the second sub-tree replaces the first under another condition '
              'than `it has eligible leaves and rand() < n2 / (n1 + n2)`', fn=g,
              node=acc[0] if acc else g.node)
    adv = [s for s in own_nodes(g.node) if isinstance(s, ast.AugAssign) and
           isinstance(s.op, ast.Add) and isinstance(s.target, ast.Name) and
           s.target.id == cnt1 and exg.raw(s.value) == ('name', cnt2)]
    ok = len(adv) == 1 and bool(acc) and \
        not cfg_of(g).exists_path(ctx.node(g, adv[0]), ctx.node(g, acc[0])) and \
        all(_test_node_precedes(ctx, g, acc[0], adv[0]) for _ in (0,))
    ctx.check(ok, g, 'eligible count advanced after the draw that uses it', 'n_sub += n_sub2 last',
              'the eligible count of the first sub-tree is advanced before the selection draw '
              'reads it', fn=g, node=adv[0] if adv else g.node)
    # --- main loop: samples[ii] = params1 ---
    exn = ctx.ex(nuts)
    calls = [c for c in own_nodes(nuts.node) if isinstance(c, ast.Call) and
             isinstance(c.func, ast.Name) and c.func.id == g.name]
    tups = []
    for c in calls:
        st = getattr(c, '_parent', None)
        if isinstance(st, ast.Assign) and isinstance(st.targets[0], ast.Tuple) and \
                len(st.targets[0].elts) == 11:
            tups.append([e.id if isinstance(e, ast.Name) else None for e in st.targets[0].elts])
    if len(tups) != 2 or tups[0][4:7] != tups[1][4:7]:
        ctx.undecided('calls of the tree helper in the main loop not recognised')
    cand, nsub, subok = tups[0][4], tups[0][5], tups[0][6]
    sel = [s for s in own_nodes(nuts.node) if isinstance(s, ast.Assign) and
           isinstance(s.targets[0], ast.Subscript) and exn.raw(s.value) == ('name', cand)]
    ok = len(sel) == 1
    tot = None
    if ok:
        gs = _raw_guards(ctx, nuts, sel[0])
        valid = any(pol and match_any(t, ('{} == 1'.format(subok), subok,
                                          '{} == True'.format(subok))) is not None
                    for (t, pol, _) in gs)
        m = None
        for (t, pol, _) in gs:
            if pol:
                m = m or match_any(t, ('_g.rand() < float({}) / _n'.format(nsub),
                                       '_g.rand() < {} / _n'.format(nsub)))
        ok = valid and m is not None and m['n'][0] == 'name'
        if ok:
            tot = m['n'][1]
    ctx.check(ok and tot is not None, nuts, 'candidate accepted only from a valid sub-tree, with '
              'probability n_sub / n_ok', 'if sub_ok == 1: if rand() < n_sub / n_ok: '
              'samples[ii] = params1',
              'the state of the iteration is replaced under another condition than `the '
              'sub-tree is valid and rand() < n_sub / n_ok`', fn=nuts,
              node=sel[0] if sel else nuts.node)
    if tot is not None and sel:
        adv = [s for s in own_nodes(nuts.node) if isinstance(s, ast.AugAssign) and
               isinstance(s.op, ast.Add) and isinstance(s.target, ast.Name) and
               s.target.id == tot and exn.raw(s.value) == ('name', nsub)]
        lo = enclosing_loop(sel[0])
        hdr = cfg_of(nuts).by_stmt[id(lo)] if lo is not None else None
        ok = len(adv) == 1 and enclosing_loop(adv[0]) is lo and hdr is not None and \
            not cfg_of(nuts).exists_path(ctx.node(nuts, adv[0]), ctx.node(nuts, sel[0]),
                                         avoiding=[hdr]) and \
            not ctx.guard_groups(nuts, adv[0])[len(ctx.guard_groups(nuts, lo.body[0])):]
        ctx.check(ok, nuts, 'running eligible total advanced after the draw, for every doubling',
                  'n_ok += n_sub after the acceptance test, unconditionally',
                  'the running total of eligible leaves is advanced before the draw that reads '
                  'it, or not for every doubling', fn=nuts, node=adv[0] if adv else sel[0])
        init = [s for s in own_nodes(nuts.node) if isinstance(s, ast.Assign) and
                isinstance(s.targets[0], ast.Name) and s.targets[0].id == tot and
                exn.raw(s.value) == ('const', 1) and enclosing_loop(s) is enclosing_loop(lo)]
        ctx.check(len(init) == 1 and cfg_of(nuts).must_precede(
            [ctx.node(nuts, init[0])], hdr) if init and hdr is not None else False, nuts,
            'the current state counts as one eligible leaf', 'n_ok = 1 before the doublings',
            'the running total does not start at 1 (the current state) for every iteration',
            fn=nuts, node=init[0] if init else sel[0])
    # default of the iteration: the previous state
    if sel:
        tgt = exn.raw(sel[0].targets[0])
        dfl = [s for s in own_nodes(nuts.node) if isinstance(s, ast.Assign) and
               isinstance(s.targets[0], ast.Subscript) and exn.raw(s.targets[0]) == tgt and
               s is not sel[0]]
        lo = enclosing_loop(sel[0])
        ok = len(dfl) == 1 and lo is not None and \
            enclosing_loop(dfl[0]) is enclosing_loop(lo) and \
            match(exn.term(dfl[0].value), pattern('_s[_i - 1, :]')) is not None and \
            cfg_of(nuts).must_precede([ctx.node(nuts, dfl[0])], cfg_of(nuts).by_stmt[id(lo)])
        ctx.check(ok, nuts, 'the iteration\'s state defaults to the previous state',
                  'samples[ii, :] = samples[ii - 1, :] before the doublings',
                  'the state of an iteration is not initialised with the previous state before '
                  'the tree is built (an iteration without an accepted candidate would output '
                  'an uninitialised row)', fn=nuts, node=dfl[0] if dfl else sel[0])


def _raw_guards(ctx, fn, node):
    """dominating tests over *unexpanded* terms (local names kept), with their equivalents and
    the atoms implied by a true conjunction"""
    from .base import guard_equivalents
    ex = ctx.ex(fn)
    out = []
    for (tn, pol) in cfg_of(fn).guards_of(ctx.node(fn, node)):
        if tn.kind != 'test':
            continue
        todo = [(ex.raw(tn.ast), pol)]
        while todo:
            (t, p) = todo.pop()
            for (t2, p2) in guard_equivalents(t, p):
                if t2[0] == 'unary' and t2[1] == 'not':
                    continue
                out.append((t2, p2, tn.ast))
                if t2[0] == 'bool' and ((t2[1] == 'and' and p2) or (t2[1] == 'or' and not p2)):
                    for item in t2[2]:
                        todo.append((item, p2))
    return out


def _ancestors(node, stop):
    out = []
    n = getattr(node, '_parent', None)
    while n is not None and n is not stop:
        out.append(n)
        n = getattr(n, '_parent', None)
    return out


def _test_node_precedes(ctx, fn, guarded, later):
    """every test guarding `guarded` is evaluated before `later` on every path"""
    cfg = cfg_of(fn)
    for (tn, pol) in cfg.guards_of(ctx.node(fn, guarded)):
        if tn.kind == 'test' and cfg.exists_path(ctx.node(fn, later), tn):
            return False
    return True


@obligation('C09-l', 'T11 T13', 'NUTS validity flags: a second sub-tree is grown only from a valid '
            'first one; validity is the conjunction of the sub-trees\' validity and the two '
            'no-U-turn tests; doubling continues only while the trajectory is valid and the '
            'depth limit is not exceeded', floor=4,
            necessary='growing from an invalid (diverged or outside-support) sub-tree, or a '
                      'validity that is a disjunction, keeps extending and selecting from a '
                      'trajectory that left the slice')
def c09_l(ctx):
    nuts = ctx.fn(M + ':nuts')
    bt = [g for g in ctx.reachable([nuts], depth=1, may=False)
          if g.module.name == M and g.name != 'nuts' and
          any(isinstance(n, ast.Call) and ctx.ex(g).term(n.func) == ('param', 'grad_target')
              for n in own_nodes(g.node))]
    if not bt:
        raise AnchorMissing('NUTS tree helper not found')
    g = bt[0]
    exg = ctx.ex(g)
    recs = []
    for c in own_nodes(g.node):
        if isinstance(c, ast.Call) and isinstance(c.func, ast.Name) and c.func.id == g.name:
            st = getattr(c, '_parent', None)
            if isinstance(st, ast.Assign) and isinstance(st.targets[0], ast.Tuple) and \
                    len(st.targets[0].elts) == 11:
                d = sum(1 for a in _ancestors(st, g.node) if isinstance(a, ast.If))
                recs.append((st, [e.id if isinstance(e, ast.Name) else None
                                  for e in st.targets[0].elts], d))
    if len(recs) < 2:
        ctx.undecided('recursive calls of the tree helper not recognised')
    dmin = min(d for (_, _, d) in recs)
    first = [r for r in recs if r[2] == dmin]
    second = [r for r in recs if r[2] > dmin]
    okname = first[0][1][6]
    ok = len(first) == 1 and bool(second) and all(
        any(p and t == ('name', okname) for (t, p, _) in _raw_guards(ctx, g, st))
        for (st, _, _) in second) and all(names[6] == okname for (_, names, _) in second)
    ctx.check(ok, g, 'second sub-tree grown only from a valid first one', 'if sub_ok: recurse',
              'the second recursive call is not made exactly when the first sub-tree is valid',
              fn=g, node=second[0][0] if second else g.node)

    def uturn_conj(t, flag):
        """t == flag and (inner(r - l, ml) >= 0) and (inner(r - l, mr) >= 0)"""
        if not (t[0] == 'bool' and t[1] == 'and' and len(t[2]) == 3):
            return False
        parts = list(t[2])
        flags = [x for x in parts if x == ('name', flag)]
        tests = [x for x in parts if match_any(x, ('np.inner(_r - _l, _m) >= 0',
                                                   '0 <= np.inner(_r - _l, _m)')) is not None]
        if len(flags) != 1 or len(tests) != 2:
            return False
        ms = [match_any(x, ('np.inner(_r - _l, _m) >= 0', '0 <= np.inner(_r - _l, _m)'))
              for x in tests]
        return ms[0]['r'] == ms[1]['r'] and ms[0]['l'] == ms[1]['l'] and \
            ms[0]['m'] != ms[1]['m'] and ms[0]['r'] != ms[0]['l']
    upd = [s for s in own_nodes(g.node) if isinstance(s, ast.Assign) and
           isinstance(s.targets[0], ast.Name) and s.targets[0].id == okname and
           isinstance(s.value, ast.BoolOp)]
    ok = len(upd) == 1 and uturn_conj(exg.raw(upd[0].value), okname) and bool(second) and \
        all(cfg_of(g).exists_path(ctx.node(g, st), ctx.node(g, upd[0])) for (st, _, _) in second)
    ctx.check(ok, g, 'sub-tree validity = both halves valid and no U-turn at either end',
              'sub_ok = sub_ok and inner(r - l, m_l) >= 0 and inner(r - l, m_r) >= 0',
              'the validity of the doubled sub-tree is not the conjunction of the second half\'s '
              'validity and the two no-U-turn tests over its own end points', fn=g,
              node=upd[0] if upd else g.node)
    # main loop
    exn = ctx.ex(nuts)
    calls = [c for c in own_nodes(nuts.node) if isinstance(c, ast.Call) and
             isinstance(c.func, ast.Name) and c.func.id == g.name]
    lo = enclosing_loop(calls[0]) if calls else None
    if not isinstance(lo, ast.While):
        ctx.undecided('doubling loop of the main function not recognised')
    st0 = getattr(calls[0], '_parent', None)
    subok = st0.targets[0].elts[6].id if isinstance(st0, ast.Assign) and \
        isinstance(st0.targets[0], ast.Tuple) and len(st0.targets[0].elts) == 11 else None
    wt = exn.raw(lo.test)
    flag = None
    okw = wt[0] == 'bool' and wt[1] == 'and' and len(wt[2]) == 2
    if okw:
        names = [x for x in wt[2] if x[0] == 'name']
        lim = [x for x in wt[2] if match_any(x, ('_d <= max_depth', 'max_depth >= _d',
                                                 '_d < max_depth + 1')) is not None]
        okw = len(names) == 1 and len(lim) == 1
        flag = names[0][1] if names else None
    ctx.check(okw, nuts, 'doubling continues while the trajectory is valid and within the depth '
              'limit', 'while all_ok and depth <= max_depth',
              'the doubling loop does not run exactly while the trajectory is valid and the '
              'depth limit is not exceeded', fn=nuts, node=lo)
    if flag is not None and subok is not None:
        upd = [s for s in ast.walk(lo) if isinstance(s, ast.Assign) and
               isinstance(s.targets[0], ast.Name) and s.targets[0].id == flag]
        ok = len(upd) == 1 and uturn_conj(exn.raw(upd[0].value), subok)
        init = [s for s in own_nodes(nuts.node) if isinstance(s, ast.Assign) and
                isinstance(s.targets[0], ast.Name) and s.targets[0].id == flag and
                not _inside(s, lo)]
        ok = ok and len(init) == 1 and exn.raw(init[0].value) == ('const', True)
        ctx.check(ok, nuts, 'trajectory validity = last sub-tree valid and no U-turn between the '
                  'trajectory\'s ends', 'all_ok = sub_ok and inner(...) >= 0 and inner(...) >= 0',
                  'the validity of the trajectory is not (re)computed after every doubling as '
                  'the conjunction of the sub-tree\'s validity and the two no-U-turn tests',
                  fn=nuts, node=upd[0] if upd else lo)
        dep = [x for x in wt[2] if x[0] != 'name']
        dm = match_any(dep[0], ('_d <= max_depth', 'max_depth >= _d', '_d < max_depth + 1')) \
            if dep else None
        dname = dm['d'][1] if dm is not None and dm['d'][0] == 'name' else None
        from .base import increment_of
        incs = [s for s in lo.body if increment_of(s, by=1) is not None and
                increment_of(s, by=1)[0] == dname]
        ctx.check(len(incs) == 1, nuts, 'depth advances with every doubling', 'depth += 1',
                  'the tree depth is not advanced by one in every trip of the doubling loop',
                  fn=nuts, node=incs[0] if incs else lo)


@obligation('C09-m', 'T2', 'no result buffer takes the dtype of a caller\'s array and then receives '
            'computed values (shared sweep of C08-l, restricted to the modules this property is '
            'anchored in; `*_like(x)` and `dtype=x.dtype` allocations)', floor=1,
            necessary='every state a kernel stores is the state it computed: an integer-typed start point must not make the chain buffer an integer array (numpy truncates floats silently when they are assigned into an '
                      'integer array)')
def c09_dtype(ctx):
    from .base import inherited_dtype_obligation
    inherited_dtype_obligation(ctx, ['elfi.methods.mcmc'])
