"""C10 - BOLFI posterior definition; coherence of the fast GP path.

Decided: argument roles and units of norm.logcdf, composition of likelihood and prior, the
bounds test and the masks, agreement between the cached RBF fields written and read, evidence
order in update(), the is_sampling bracket, `noiseless` honoured by both paths, the likelihood
gradient as the symbolic derivative of the log likelihood (sa/symdiff.py), the fast-path GP
equations and their derivatives in the scalar specialisation.  Not decided: equality of the fast
path with GPy for general input_dim / evidence size, GPy itself.
"""

import ast

from .. import AnalysisError, AnchorMissing
from ..cfg import cfg_of
from ..model import own_nodes
from ..values import pattern, match, match_any, find, contains, show, subterms, alias
from ..domains import polarity, POS, NEG, ZERO
from .base import obligation, src, callee_name, unweak
from .C04 import pattern_term, returns, enclosing_loop, _inside

BP = 'elfi.methods.posteriors:BolfiPosterior'
GP = 'elfi.methods.bo.gpy_regression:GPyRegression'


def lik_fns(ctx):
    bp = ctx.cls(BP)
    lp = ctx.own_method(bp, 'logpdf')
    glp = ctx.own_method(bp, 'gradient_logpdf')
    lik = [f for f in ctx.reachable([lp], depth=1, may=False) if f.cls is bp and
           ctx.calls(f, 'ss.norm.logcdf(*_)')]
    glik = [f for f in ctx.reachable([glp], depth=1, may=False) if f.cls is bp and
            ctx.calls(f, 'self.model.predictive_gradients(_)')]
    if not lik:
        raise AnchorMissing('no likelihood function using norm.logcdf reachable from logpdf')
    if not glik:
        raise AnchorMissing('no gradient function using predictive_gradients')
    return bp, lp, glp, lik[0], glik[0]


@obligation('C10-a', 'T8 T9', 'log-likelihood = logcdf(threshold; mean, sd) of the surrogate '
            'prediction', floor=4,
            necessary='swapped roles or a variance passed as scale define another likelihood')
def c10_a(ctx):
    ctx.fact('scipy.stats.norm.logcdf(x, loc, scale): scale is a standard deviation')
    bp, lp, glp, lik, glik = lik_fns(ctx)
    ex = ctx.ex(lik)
    for c in ctx.calls(lik, 'ss.norm.logcdf(*_)'):
        kws = dict((k.arg, ex.term(k.value)) for k in c.keywords)
        a = [ex.term(x) for x in c.args]
        x = a[0] if a else kws.get('x')
        loc = a[1] if len(a) > 1 else kws.get('loc')
        scale = a[2] if len(a) > 2 else kws.get('scale')
        ctx.check(x == pattern_term('self.threshold'), lik, 'x is the threshold',
                  'logcdf(self.threshold, ...)',
                  'logcdf is evaluated at {} instead of the threshold'.format(
                      show(x)[:60] if x else None), fn=lik, node=c)
        pm = match(loc, pattern('self.model.predict(_x)')) if False else None
        ok = loc is not None and loc[0] == 'item' and loc[2] == 0 and \
            match(loc[1], pattern('self.model.predict(_x)')) is not None
        ctx.check(ok, lik, 'loc is the predicted mean', 'first component of model.predict(x)',
                  'loc is {}'.format(show(loc)[:80] if loc else None), fn=lik, node=c)
        ms = match(scale, pattern('np.sqrt(_v)')) if scale is not None else None
        ok2 = ms is not None and ms['v'][0] == 'item' and ms['v'][2] == 1 and \
            loc is not None and loc[0] == 'item' and ms['v'][1] == loc[1]
        ctx.check(ok2, lik, 'scale is the predicted standard deviation',
                  'sqrt(second component of the same prediction)',
                  'scale is {} - not the square root of the predicted variance'.format(
                      show(scale)[:80] if scale else None), fn=lik, node=c)
        # noisy prediction: predict() without noiseless=True
        if ok:
            pc = loc[1]
            noisy = not any(k == 'noiseless' for (k, v) in pc[3])
            ctx.check(noisy, lik, 'noisy prediction', 'predict(x) includes the noise variance',
                      'the likelihood uses the noiseless prediction', fn=lik, node=c)
    exg = ctx.ex(glik)
    terms = [n for n in own_nodes(glik.node) if isinstance(n, ast.Assign) and
             match(exg.term(n.value), pattern('(self.threshold - _m) / _s')) is not None]
    ok = False
    for n in terms:
        m = match(exg.term(n.value), pattern('(self.threshold - _m) / _s'))
        ms = match(m['s'], pattern('np.sqrt(_v)'))
        if m['m'][0] == 'item' and m['m'][2] == 0 and ms is not None and \
                ms['v'][0] == 'item' and ms['v'][2] == 1 and ms['v'][1] == m['m'][1] and \
                match(m['m'][1], pattern('self.model.predict(_x)')) is not None:
            ok = True
    ctx.check(ok, glik, 'gradient standardises the same way',
              'term = (threshold - mean) / sqrt(var)',
              'the gradient does not use (threshold - mean) / sd of the same prediction',
              fn=glik, node=terms[0] if terms else glik.node)


@obligation('C10-b', 'T4 T13', 'log posterior = log likelihood + log prior, gradient likewise',
            floor=2, necessary='a flipped sign targets likelihood / prior')
def c10_b(ctx):
    bp, lp, glp, lik, glik = lik_fns(ctx)
    for (f, a, b) in ((lp, 'self.{}(x)'.format(lik.name), 'self.prior.logpdf(x)'),
                      (glp, 'self.{}(x)'.format(glik.name), 'self.prior.gradient_logpdf(x)')):
        ex = ctx.ex(f)
        rr = returns(f)
        if len(rr) != 1:
            ctx.undecided('{} has {} returns'.format(f.qname, len(rr)))
        t = ex.term(rr[0].value)
        pa = polarity(t, lambda x, p=pattern(a): match(x, p) is not None)
        pb = polarity(t, lambda x, p=pattern(b): match(x, p) is not None)
        ctx.check(pa == POS and pb == POS, f, 'sum of likelihood and prior parts',
                  '{} + {}'.format(a, b),
                  '{} combines {} ({}) and {} ({})'.format(f.name, a, pa, b, pb), fn=f,
                  node=rr[0])
    pdf = ctx.own_method(bp, 'pdf')
    rr = returns(pdf)
    ok = len(rr) == 1 and match(ctx.term(pdf, rr[0].value), pattern('np.exp(self.logpdf(x))')) \
        is not None
    ctx.check(ok, pdf, 'pdf = exp(logpdf)', 'np.exp(self.logpdf(x))',
              'pdf is not exp(logpdf)', fn=pdf, node=rr[0] if rr else pdf.node)


@obligation('C10-c', 'T6 T3', 'outside the bounds the log density is -inf (gradient 0); the '
            'bounds are inclusive', floor=6,
            necessary='strict bounds exclude boundary points; an unmasked write evaluates the '
                      'surrogate outside the bounds')
def c10_c(ctx):
    bp, lp, glp, lik, glik = lik_fns(ctx)
    wbs = [f for f in ctx.reachable([lik], depth=1, may=False) if f.cls is bp and
           any(isinstance(n, ast.Compare) and contains(ctx.ex(f).term(n), 'self.model.bounds[_][_]')
               for n in own_nodes(f.node))]
    if not wbs:
        raise AnchorMissing('bounds test not found')
    wb = wbs[0]
    ex = ctx.ex(wb)
    cmps = [n for n in own_nodes(wb.node) if isinstance(n, ast.Compare)]
    lo_ok = hi_ok = False
    for n in cmps:
        t = ex.term(n)
        m1 = match(t, pattern('self.model.bounds[_i][0] <= _x[:, _i]'))
        m2 = match(t, pattern('_x[:, _i] <= self.model.bounds[_i][1]'))
        if m1 is not None:
            lo_ok = True
        if m2 is not None:
            hi_ok = True
    strict = [n for n in cmps if ex.term(n)[0] == 'cmp' and ex.term(n)[1] == '<' and
              contains(ex.term(n), 'self.model.bounds[_][_]')]
    ctx.check(lo_ok and not strict, wb, 'lower bound inclusive', 'x[:, i] >= bounds[i][0]',
              'the lower bound test is not `x[:, i] >= bounds[i][0]`', fn=wb,
              node=cmps[0] if cmps else wb.node)
    ctx.check(hi_ok and not strict, wb, 'upper bound inclusive', 'x[:, i] <= bounds[i][1]',
              'the upper bound test is not `x[:, i] <= bounds[i][1]`', fn=wb,
              node=cmps[-1] if cmps else wb.node)
    loops = [n for n in own_nodes(wb.node) if isinstance(n, ast.For)]
    ok = bool(loops) and match(ex.term(loops[0].iter, cfg_of(wb).by_stmt[id(loops[0])]),
                               pattern('range(self.dim)')) is not None and \
        all(_inside(n, loops[0]) for n in cmps)
    ctx.check(ok, wb, 'every dimension tested', 'for i in range(self.dim)',
              'the bounds test does not cover every dimension', fn=wb,
              node=loops[0] if loops else wb.node)
    # both tests are conjoined into the mask
    acc = [n for n in ast.walk(loops[0]) if isinstance(n, ast.AugAssign)] if loops else []
    ok = len(acc) >= 2 and all(isinstance(n.op, (ast.Mult, ast.BitAnd)) for n in acc)
    ctx.check(ok, wb, 'tests conjoined', 'logical *= (test)',
              'the per-dimension tests are not conjoined', fn=wb,
              node=acc[0] if acc else wb.node)
    for (f, init_pat, what) in ((lik, None, 'log-likelihood'), (glik, None, 'gradient')):
        exf = ctx.ex(f)
        masks = [n for n in own_nodes(f.node) if isinstance(n, ast.Assign) and
                 match(exf.term(n.value), pattern('self.{}(_x)'.format(wb.name))) is not None]
        stores = [n for n in own_nodes(f.node) if isinstance(n, ast.Assign) and
                  isinstance(n.targets[0], ast.Subscript) and
                  contains(exf.term(n.targets[0].slice), 'self.{}(_x)'.format(wb.name))]
        ok = bool(masks) and len(stores) == 1
        ctx.check(ok, f, what + ' written only under the bounds mask',
                  'buffer[mask] = values', 'the {} buffer is not written exactly once under '
                  'the bounds mask'.format(what), fn=f, node=stores[0] if stores else f.node)
        if stores:
            bufname = stores[0].targets[0].value.id if isinstance(stores[0].targets[0].value,
                                                                  ast.Name) else None
            inits = [n for n in own_nodes(f.node) if isinstance(n, ast.Assign) and
                     isinstance(n.targets[0], ast.Name) and n.targets[0].id == bufname and
                     not isinstance(n.value, ast.Subscript)]
            if f is lik:
                ok = bool(inits) and match_any(exf.raw(inits[0].value),
                                               ('-np.ones(len(_x)) * np.inf',
                                                'np.full(len(_x), -np.inf)',
                                                '-np.inf * np.ones(len(_x))')) is not None
                ctx.check(ok, f, 'log-likelihood starts at -inf', '-ones * inf',
                          'the log-likelihood buffer does not start at -inf', fn=f,
                          node=inits[0] if inits else f.node)
            else:
                ok = bool(inits) and match_any(exf.raw(inits[0].value),
                                               ('np.zeros_like(_x)', 'np.zeros(_s)')) is not None
                ctx.check(ok, f, 'gradient starts at 0', 'zeros_like(x)',
                          'the gradient buffer does not start at zero', fn=f,
                          node=inits[0] if inits else f.node)
        # an early return (before the masked write) is taken only when no point is inside
        if stores:
            mk = 'self.{}(_y)'.format(wb.name)
            empties = ['len(_x[{}, :]) == 0'.format(mk), 'len(_x[{}]) == 0'.format(mk),
                       '_x[{}, :].shape[0] == 0'.format(mk), 'np.sum({}) == 0'.format(mk),
                       '{}.sum() == 0'.format(mk), '_x[{}, :].size == 0'.format(mk)]
            none_in = ['np.any({})'.format(mk), '{}.any()'.format(mk)]
            for r in returns(f):
                if ctx.must_precede(f, [stores[0]], r):
                    continue
                g = ctx.guards(f, r)
                ok = any(pol and match_any(t, empties) is not None for (t, pol, _) in g) or \
                    any((not pol) and match_any(t, none_in) is not None for (t, pol, _) in g)
                ctx.check(ok, f, what + ': early return only when no point is inside the bounds',
                          'len(x[mask]) == 0',
                          'the {} returns its initial buffer early under a condition other than '
                          '"no query point is inside the bounds": in-bounds rows of a mixed batch '
                          'get the out-of-bounds value'.format(what), fn=f, node=r)
        # the surrogate is evaluated at the points inside the bounds only
        pc = ctx.calls(f, 'self.model.predict(_)')
        ok = bool(pc) and all(match(exf.term(c.args[0]), pattern('_x[self.{}(_y), :]'.format(
            wb.name))) is not None for c in pc)
        ctx.check(ok, f, 'surrogate evaluated inside the bounds only', 'predict(x[mask, :])',
                  'the surrogate is evaluated at unmasked points', fn=f,
                  node=pc[0] if pc else f.node)


@obligation('C10-d', 'T8 T13', 'the cached RBF fields read by the fast paths are exactly those '
            'the cache function writes; both paths share one guard', floor=6,
            necessary='a field read but never cached raises or is stale; different guards make '
                      'predict and its gradient describe different surrogates')
def c10_d(ctx):
    gp = ctx.cls(GP)
    cachers = [m for m in gp.methods.values()
               if any(isinstance(s, ast.Assign) and ctx.term(m, s.value) == ('const', True)
                      for (s, t, k) in ctx.stores(m, 'self._rbf_is_cached'))]
    if len(cachers) != 1:
        ctx.undecided('expected one cache function, found {}'.format([m.name for m in cachers]))
    cf = cachers[0]
    written = set()
    for n in own_nodes(cf.node):
        if isinstance(n, ast.Attribute) and isinstance(n.ctx, ast.Store) and \
                n.attr.startswith('_rbf_'):
            written.add(n.attr)
    # the cache function refreshes every field on every call: the GP can change in place
    # (optimize()), so no field may be kept under a condition on the GP object or on itself
    g_cf = cfg_of(cf)
    for n in own_nodes(cf.node):
        if isinstance(n, ast.Assign) and isinstance(n.targets[0], ast.Attribute) and \
                n.targets[0].attr.startswith('_rbf_') and n.targets[0].attr != '_rbf_is_cached':
            ctx.check(g_cf.must_pass([ctx.node(cf, n)]), cf,
                      'cached field {} refreshed on every call'.format(n.targets[0].attr),
                      'unconditional store',
                      '{} is refreshed only under a condition: after an in-place change of the GP '
                      '(optimize()) new kernel parameters are combined with stale cached terms'
                      .format(n.targets[0].attr), fn=cf, node=n)
    guards = {}
    for name in ('predict', 'predictive_gradients'):
        m = ctx.own_method(gp, name)
        ex = ctx.ex(m)
        read = set()
        for n in own_nodes(m.node):
            if isinstance(n, ast.Attribute) and isinstance(n.ctx, ast.Load) and \
                    n.attr.startswith('_rbf_'):
                read.add(n.attr)
        missing = read - written
        ctx.check(not missing, m, 'cached fields read are written by the cache function',
                  '{} fields'.format(len(read)),
                  '{} reads {} which {} never sets'.format(name, sorted(missing), cf.name),
                  fn=m, node=m.node)
        calls = ctx.calls(m, resolved_to=cf)
        ok = bool(calls)
        for c in calls:
            gs = ctx.guards(m, c)
            nc = any((not pol) and match(t, pattern('self._rbf_is_cached')) is not None
                     for (t, pol, _) in gs)
            fast = [t for (t, pol, _) in gs if pol and contains(t, 'self.is_sampling')]
            ok = ok and nc and bool(fast)
            if fast:
                guards[name] = fast[0]
        ctx.check(ok, m, 'cache built on demand inside the fast path',
                  'if not _rbf_is_cached: cache()',
                  '{} does not build the cache when it is absent'.format(name), fn=m,
                  node=calls[0] if calls else m.node)
        # every read of a cached field is inside the fast path and after the cache call
        for n in own_nodes(m.node):
            if isinstance(n, ast.Attribute) and isinstance(n.ctx, ast.Load) and \
                    n.attr.startswith('_rbf_') and n.attr != '_rbf_is_cached':
                gs = ctx.guards(m, n)
                infast = any(pol and contains(t, 'self.is_sampling') for (t, pol, _) in gs)
                if not infast:
                    ctx.bad(m, 'cached field read outside the fast path',
                            '`{}` is read outside the guarded fast path'.format(src(n)), fn=m,
                            node=n)
    ok = len(guards) == 2 and guards.get('predict') == guards.get('predictive_gradients') and \
        match_any(guards.get('predict', ('const', None)),
                  ('self.is_sampling and self._kernel_is_default',
                   'self._kernel_is_default and self.is_sampling')) is not None
    ctx.check(ok, gp.qname, 'one guard for both fast paths',
              'is_sampling and _kernel_is_default',
              'predict and predictive_gradients take the fast path under different conditions',
              fn=ctx.own_method(gp, 'predict'), node=ctx.own_method(gp, 'predict').node)
    pr = ctx.own_method(gp, 'predict')
    resets = [s for (s, t, k) in ctx.stores(pr, 'self._rbf_is_cached')
              if isinstance(s, ast.Assign) and ctx.term(pr, s.value) == ('const', False)]
    # the reset sits on the branch where the fast-path test as a whole is false
    ok_lazy = bool(resets) and all(any(pol is False and contains(unweak(t), 'self.is_sampling')
                                       and contains(unweak(t), 'self._kernel_is_default')
                                       for (t, pol, _) in ctx.guards(pr, s)) for s in resets)
    # alternative discipline: every method that changes the GP (new instance, optimised
    # hyper-parameters) invalidates the cache itself
    changers = []
    for m in gp.methods.values():
        if m.name == '__init__':
            continue
        exm = ctx.ex(m)
        ch = [s for (s, t, k) in ctx.stores(m, 'self._gp') if isinstance(s, ast.Assign)] + \
            [c for c in ctx.calls(m, 'self._gp.optimize(*_)')]
        if ch:
            changers.append((m, ch))
    ok_eager = bool(changers)
    for (m, ch) in changers:
        rs = [s for (s, t, k) in ctx.stores(m, 'self._rbf_is_cached')
              if isinstance(s, ast.Assign) and ctx.term(m, s.value) == ('const', False)]
        if not rs or not all(ctx.must_follow(m, c, rs) or
                             cfg_of(m).must_pass([ctx.node(m, r) for r in rs]) for c in ch):
            ok_eager = False
    ctx.check(ok_lazy or ok_eager, pr, 'cache invalidated when the GP changes',
              'slow path of predict resets _rbf_is_cached' if ok_lazy else
              'every method that changes the GP resets _rbf_is_cached',
              'the RBF cache is neither reset on the slow path of predict nor by every method '
              'that changes the GP ({}): a stale cache can be read'.format(
                  [m.name for (m, ch) in changers]), fn=pr,
              node=resets[0] if resets else pr.node)
    init = ctx.own_method(gp, '__init__')
    st = [s for (s, t, k) in ctx.stores(init, 'self._rbf_is_cached')
          if isinstance(s, ast.Assign) and ctx.term(init, s.value) == ('const', False)]
    ctx.check(bool(st), init, 'no cache initially', '_rbf_is_cached = False',
              'a new surrogate starts with the cache marked valid', fn=init,
              node=st[0] if st else init.node)
    # fast path only for the default kernel: flag decided where the GP is created
    ig = [m for m in gp.methods.values() if ctx.stores(m, 'self._kernel_is_default')]
    ok = False
    for m in ig:
        trues = [s for (s, t, k) in ctx.stores(m, 'self._kernel_is_default')
                 if isinstance(s, ast.Assign) and ctx.term(m, s.value) == ('const', True)]
        for s in trues:
            gs = ctx.guards(m, s)
            if any(pol and contains(t, "self.gp_params['kernel'] is None") for (t, pol, _) in gs):
                ok = True
    ctx.check(ok, gp.qname, 'fast path only for the default kernel',
              '_kernel_is_default = True only when no kernel is given',
              'the fast path can be enabled for a user-supplied kernel',
              fn=ig[0] if ig else None, node=ig[0].node if ig else None)


@obligation('C10-e', 'T7', 'adding evidence keeps the earlier evidence first and in order',
            floor=3, necessary='new-then-old (or X and Y joined differently) reorders or '
                               'mispairs the evidence')
def c10_e(ctx):
    gp = ctx.cls(GP)
    up = ctx.own_method(gp, 'update')
    ex = ctx.ex(up)
    mk = [c for c in ctx.calls(up) if callee_name(c) == alias('_make_gpy_instance') or
          match(ex.term(c), pattern('GPy.models.GPRegression(*_)')) is not None]
    if not mk:
        raise AnchorMissing('update does not rebuild the GP')
    c = mk[0]
    a = [ex.term(x) for x in c.args]
    kws = dict((k.arg, ex.term(k.value)) for k in c.keywords)
    X = a[0] if a else kws.get('X')
    Y = a[1] if len(a) > 1 else kws.get('Y')
    okx = match_any(X, ('np.r_[self._gp.X, _n]', 'np.concatenate((self._gp.X, _n))',
                        'np.vstack((self._gp.X, _n))', 'np.concatenate([self._gp.X, _n])')) \
        is not None
    oky = match_any(Y, ('np.r_[self._gp.Y, _n]', 'np.concatenate((self._gp.Y, _n))',
                        'np.vstack((self._gp.Y, _n))', 'np.concatenate([self._gp.Y, _n])')) \
        is not None
    ctx.check(okx, up, 'X: old evidence then new', 'np.r_[gp.X, x]',
              'X = {} does not keep the earlier inputs first'.format(show(X)[:80] if X else None),
              fn=up, node=c)
    ctx.check(oky, up, 'Y: old evidence then new', 'np.r_[gp.Y, y]',
              'Y = {} does not keep the earlier outputs first'.format(show(Y)[:80] if Y else None),
              fn=up, node=c)
    if okx and oky:
        nx_ = match_any(X, ('np.r_[self._gp.X, _n]', 'np.concatenate((self._gp.X, _n))',
                            'np.vstack((self._gp.X, _n))', 'np.concatenate([self._gp.X, _n])'))['n']
        ny_ = match_any(Y, ('np.r_[self._gp.Y, _n]', 'np.concatenate((self._gp.Y, _n))',
                            'np.vstack((self._gp.Y, _n))', 'np.concatenate([self._gp.Y, _n])'))['n']
        ok = match(nx_, pattern('x.reshape((-1, self.input_dim))')) is not None and \
            match(ny_, pattern('y.reshape((-1, 1))')) is not None
        ctx.check(ok, up, 'new rows are the given batch', 'x reshaped (n, dim), y reshaped (n, 1)',
                  'the appended rows are not the given (x, y) reshaped to rows', fn=up, node=c)
    first = [cc for cc in ctx.calls(up, name='_init_gp')]
    ok = bool(first) and all(any(pol and match(t, pattern('self._gp is None')) is not None
                                 for (t, pol, _) in ctx.guards(up, cc)) for cc in first) and \
        any(pol is False and match(t, pattern('self._gp is None')) is not None
            for (t, pol, _) in ctx.guards(up, c))
    okf = bool(first) and all(
        [match(ex.term(a), pattern(p)) is not None
         for a, p in zip(cc.args, ('x.reshape((-1, self.input_dim))', 'y.reshape((-1, 1))'))] ==
        [True, True] for cc in first)
    ctx.check(okf, up, 'first evidence passed as (inputs, outputs)', '_init_gp(x, y)',
              'the first evidence is not passed as (x reshaped (n, dim), y reshaped (n, 1))',
              fn=up, node=first[0] if first else up.node)
    ctx.check(ok, up, 'first evidence initialises, later evidence extends',
              'if _gp is None: init else: rebuild on joined evidence',
              'update does not distinguish the first evidence from later evidence by `_gp is '
              'None`', fn=up, node=first[0] if first else up.node)


@obligation('C10-f', 'T1', 'posterior sampling brackets the fast path with is_sampling', floor=2,
            necessary='a flag left set makes later fitting read a stale cache; a flag set late '
                      'runs chains on the slow path')
def c10_f(ctx):
    bo = ctx.cls('elfi.methods.inference.bolfi:BOLFI')
    sm = ctx.own_method(bo, 'sample')
    ex = ctx.ex(sm)
    on = [s for (s, t, k) in ctx.stores(sm, 'self.target_model.is_sampling')
          if isinstance(s, ast.Assign) and ex.term(s.value) == ('const', True)]
    off = [s for (s, t, k) in ctx.stores(sm, 'self.target_model.is_sampling')
           if isinstance(s, ast.Assign) and ex.term(s.value) == ('const', False)]
    starts = ctx.calls(sm, 'self.client.apply(*_)')
    gets = ctx.calls(sm, 'self.client.get_result(_)')
    ok = bool(on) and bool(starts) and all(ctx.must_precede(sm, on, c) for c in starts)
    ctx.check(ok, sm, 'flag set before the chains start', 'is_sampling = True < client.apply',
              'chains can start before is_sampling is set', fn=sm, node=on[0] if on else sm.node)
    ok = bool(off) and bool(gets) and all(
        ctx.must_follow(sm, g, off) for g in gets) and \
        all(not cfg_of(sm).exists_path(ctx.node(sm, o), ctx.node(sm, g)) for o in off for g in gets)
    ctx.check(ok, sm, 'flag cleared after the chains were collected',
              'is_sampling = False after get_result, on the normal exit',
              'sample() can return with is_sampling still set (or clears it before the chains '
              'finish)', fn=sm, node=off[0] if off else sm.node)
    # posterior built on the surrogate and a prior in the surrogate's column order
    ep = ctx.own_method(bo, 'extract_posterior')
    exe = ctx.ex(ep)
    rr = returns(ep)
    ok = bool(rr) and match(
        exe.term(rr[-1].value),
        pattern('BolfiPosterior(self.target_model, threshold=threshold, '
                'prior=ModelPrior(self.model, parameter_names=self.target_model.parameter_names))')
    ) is not None
    ctx.check(ok, ep, 'posterior ingredients', 'surrogate, threshold, prior in surrogate order',
              'the posterior is not built from (target_model, threshold, ModelPrior in '
              'target_model.parameter_names order)', fn=ep, node=rr[-1] if rr else ep.node)


@obligation('C10-g', 'T13', 'likelihood and gradient unwrap single points under one condition',
            floor=2, necessary='different conditions make logpdf and its gradient disagree on '
                               'the shape they return for the same query')
def c10_g(ctx):
    from .C08 import squeeze_conditions
    bp, lp, glp, lik, glik = lik_fns(ctx)
    ca, cb = squeeze_conditions(ctx, lik), squeeze_conditions(ctx, glik)
    ok = len(ca) >= 2 and len(cb) >= 2 and len(set(t for (n, t) in ca) | set(t for (n, t) in cb)) == 1
    ctx.check(ok, lik, 'one unwrap condition everywhere',
              'ndim == 0 or (ndim == 1 and dim > 1) in both functions and both exits',
              'likelihood unwraps under {} but gradient under {}'.format(
                  sorted(set(show(t)[:60] for (n, t) in ca)),
                  sorted(set(show(t)[:60] for (n, t) in cb))), fn=lik,
              node=ca[0][0] if ca else lik.node)
    want = pattern('np.asanyarray(x).ndim == 0 or (np.asanyarray(x).ndim == 1 and 1 < self.dim)')
    ok = bool(ca) and all(match(t, want) is not None for (n, t) in ca + cb)
    ctx.check(ok, lik, 'unwrap exactly for a single point', '',
              'the unwrap condition is not `ndim == 0 or (ndim == 1 and dim > 1)`', fn=lik,
              node=ca[0][0] if ca else lik.node)
    # threshold default: minimum of the surrogate mean over the bounds
    init = ctx.own_method(bp, '__init__')
    ex = ctx.ex(init)
    st = [s for (s, t, k) in ctx.stores(init, 'self.threshold') if isinstance(s, ast.Assign)]
    dflt = [s for s in st if ex.term(s.value) != ('param', 'threshold')]
    ok = len(dflt) == 1 and ex.term(dflt[0].value)[0] == 'item' and ex.term(dflt[0].value)[2] == 1 \
        and match(ex.term(dflt[0].value)[1],
                  pattern('minimize(self.model.predict_mean, self.model.bounds, *_)')) is not None \
        and any(pol and match(t, pattern('self.threshold is None')) is not None
                for (t, pol, _) in ctx.guards(init, dflt[0]))
    ctx.check(ok, init, 'default threshold', 'minimum of the surrogate mean when none is given',
              'the default threshold is not the minimum value found by minimize(predict_mean, '
              'bounds)', fn=init, node=dflt[0] if dflt else init.node)


def _masked_store_value(ctx, f, arr_kind):
    """The value stored through the bounds mask (`out[logi] = v` / `out[logi, :] = v`)."""
    ex = ctx.ex(f)
    out = []
    for n in own_nodes(f.node):
        if isinstance(n, ast.Assign) and isinstance(n.targets[0], ast.Subscript) and \
                isinstance(n.targets[0].value, ast.Name):
            out.append(n)
    return out


@obligation('C10-h', 'T14', 'the likelihood gradient is the symbolic derivative of the log '
            'likelihood', floor=1,
            necessary='a gradient that is not the derivative of log Phi((h - mean)/sd) drives '
                      'NUTS and the MAP optimiser with a field inconsistent with the density')
def c10_h(ctx):
    from .. import symdiff as sd
    from ..ratfun import Rat, Unsupported
    sd.selfcheck()
    ctx.fact('d/dx log Phi(z) = phi(z)/Phi(z) dz/dx; d sqrt(v) = dv / (2 sqrt(v)); equality of '
             'rational functions modulo sqrt relations is decided by coefficient comparison')
    bp, lp, glp, lik, glik = lik_fns(ctx)
    alg = sd.Algebra()
    mean = alg.base('mean', 'grad_mean')
    var = alg.base('var', 'grad_var')
    thr = alg.const('threshold')

    def leaf(t):
        if t == pattern_term('self.threshold'):
            return thr
        if t[0] == 'item' and t[1][0] == 'call' and t[1][1][0] == 'attr' and \
                t[1][1][1] == pattern_term('self.model'):
            meth = t[1][1][2]
            if meth == 'predict' and not any(k == 'noiseless' for (k, v) in t[1][3]):
                return (mean, var)[t[2]] if t[2] in (0, 1) else None
            if meth == 'predictive_gradients':
                return (Rat.sym('grad_mean'), Rat.sym('grad_var'))[t[2]] if t[2] in (0, 1) \
                    else None
        return None
    exl, exg = ctx.ex(lik), ctx.ex(glik)
    fs = [n for n in _masked_store_value(ctx, lik, 'logpdf')
          if contains(exl.term(n.value), 'ss.norm.logcdf(*_)')]
    gs = [n for n in _masked_store_value(ctx, glik, 'grad')
          if contains(exg.term(n.value), 'self.model.predictive_gradients(_)')]
    if len(fs) != 1 or len(gs) != 1:
        ctx.undecided('expected one masked store of the log likelihood and one of its gradient, '
                      'found {} and {}'.format(len(fs), len(gs)))
    try:
        F = sd.convert(exl.term(fs[0].value), alg, leaf)
        dF = alg.D(F)
    except sd.Clipped as e:
        ctx.undecided('log likelihood contains a clipping operator: {}'.format(e))
    except Unsupported as e:
        ctx.undecided('log likelihood outside the differentiable fragment: {}'.format(e))
    try:
        G = sd.convert(exg.term(gs[0].value), alg, sd.opaque_leaf(leaf))
        ok = alg.same(G, dF)
        why = 'gradient formula {} is not d/dx of {}'.format(src(gs[0].value), src(fs[0].value))
    except sd.Clipped as e:
        ok = False
        why = 'the gradient formula contains the clipping operator {} which the log density ' \
              'does not have: the two disagree wherever the clip is active'.format(e)
    except Unsupported as e:
        ctx.undecided('gradient outside the differentiable fragment: {}'.format(e))
    ctx.check(ok, glik, 'gradient = d/dx log Phi((threshold - mean) / sd)',
              'factor * pdf / cdf equals the chain-rule derivative', why, fn=glik, node=gs[0])


def _fast_fns(ctx):
    gp = ctx.cls(GP)
    pred = ctx.own_method(gp, 'predict')
    grads = ctx.own_method(gp, 'predictive_gradients')
    cache = [m for m in gp.methods.values()
             if any(isinstance(s, ast.Assign) and ctx.term(m, s.value) == ('const', True)
                    for (s, t, k) in ctx.stores(m, 'self._rbf_is_cached'))]
    if len(cache) != 1:
        raise AnchorMissing('the RBF cache function')
    return gp, pred, grads, cache[0]


@obligation('C10-i', 'T8 T12', 'the fast path honours `noiseless` like the regular path; cached '
            'scalars are taken from an element of the GPy parameter', floor=4,
            necessary='a variance that always includes the noise differs from predict_noiseless; '
                      'float() of a one-element array raises TypeError with the installed numpy')
def c10_i(ctx):
    ctx.fact('numpy >= 2.x: float(a) raises TypeError unless a.ndim == 0; GPy Param objects '
             '(kern.*.variance, lengthscale, likelihood.variance) are 1-d arrays')
    gp, pred, grads, cache = _fast_fns(ctx)
    ex = ctx.ex(pred)
    # the noise variance is added on the fast path only under `not noiseless`
    adds = [n for n in own_nodes(pred.node)
            if isinstance(n, (ast.AugAssign, ast.Assign)) and
            contains(ex.raw(n.value), 'self._rbf_noisevar')]
    if not adds:
        raise AnchorMissing('the fast path does not mention the cached noise variance')
    p_nl = [p for p in pred.all_params if p == 'noiseless']
    if not p_nl:
        raise AnchorMissing('predict has no noiseless parameter')
    for n in adds:
        g = ctx.guards(pred, n)
        ok = any((not pol) and t in (('name', 'noiseless'), ('param', 'noiseless'))
                 for (t, pol, _) in g) or \
            any(pol and match(t, pattern('not noiseless')) is not None for (t, pol, _) in g)
        ctx.check(ok, pred, 'noise variance added only when not noiseless',
                  'if not noiseless: var += noise',
                  'the accelerated prediction adds the noise variance whatever `noiseless` is: '
                  'predict(x, noiseless=True) differs from GPy predict_noiseless', fn=pred, node=n)
    # slow path: noiseless -> predict_noiseless, else predict
    for (call, want) in (('self._gp.predict_noiseless(_)', True), ('self._gp.predict(_)', False)):
        cs = ctx.calls(pred, call)
        ok = bool(cs) and all(any(pol == want and t in (('name', 'noiseless'),
                                                         ('param', 'noiseless'))
                                  for (t, pol, _) in ctx.guards(pred, c)) for c in cs)
        ctx.check(ok, pred, 'regular path: {} under noiseless == {}'.format(call, want), '',
                  'the regular path does not choose {} by the noiseless flag'.format(call),
                  fn=pred, node=cs[0] if cs else pred.node)
    # scalar conversions
    exc = ctx.ex(cache)
    n_f = 0
    for c in ctx.calls(cache):
        if not (isinstance(c.func, ast.Name) and c.func.id == 'float' and len(c.args) == 1):
            continue
        n_f += 1
        a = c.args[0]
        ok = isinstance(a, ast.Subscript) or (
            isinstance(a, ast.Call) and isinstance(a.func, ast.Attribute) and
            a.func.attr in ('item', 'squeeze')) or (
            isinstance(a, ast.Call) and exc.raw(a.func) in (('global', 'numpy.squeeze'),))
        ctx.check(ok, cache, 'scalar taken from an element', 'float(param[0])',
                  'float({}) converts a one-element array: TypeError with the installed numpy, '
                  'the accelerated path cannot be entered'.format(src(a)), fn=cache, node=c)
    if n_f < 3:
        ctx.undecided('expected at least three scalar conversions in the cache function')


def _scalarise(t):
    """Specialise an array formula to input_dim = 1, one training point, one query point:
    transposes, axis sums and added axes are identities, dot is a product, solve is a division.
    An identity between array formulas implies the identity between their specialisations."""
    if not isinstance(t, tuple) or not t or not isinstance(t[0], str):
        return t
    k = t[0]
    if k == 'call':
        f, args, kw = t[1], tuple(_scalarise(a) for a in t[2]), t[3]
        if f[0] == 'attr' and f[2] == 'dot' and len(args) == 1:
            return ('binop', '*', _scalarise(f[1]), args[0])
        if f in (('global', 'numpy.dot'), ('global', 'numpy.matmul')) and len(args) == 2:
            return ('binop', '*', args[0], args[1])
        if f == ('global', 'numpy.transpose') and len(args) == 1:
            return args[0]
        if f == ('global', 'numpy.sum') and len(args) >= 1 and (len(args) == 2 or
                                                               dict(kw).get('axis')):
            return args[0]
        if f == ('global', 'numpy.linalg.solve') and len(args) == 2:
            return ('binop', '/', args[1], args[0])
        if f[0] == 'attr':
            f = ('attr', _scalarise(f[1]), f[2])
        return ('call', f, args, kw)
    if k == 'binop':
        return ('binop', t[1], _scalarise(t[2]), _scalarise(t[3]))
    if k == 'unary':
        return ('unary', t[1], _scalarise(t[2]))
    if k == 'sub':
        return ('sub', _scalarise(t[1]), t[2])
    if k == 'phi':
        return ('phi', tuple(_scalarise(a) for a in t[1]))
    if k == 'tuple':
        return ('tuple', tuple(_scalarise(a) for a in t[1]))
    return t


@obligation('C10-j', 'T14', 'fast path: predictive gradients are the derivatives of the fast-path '
            'mean and variance (scalar specialisation)', floor=2,
            necessary='for input_dim = 1 and one evidence point the array formulas are scalar '
                      'formulas; if the gradient is not the derivative there, it is not in general')
def c10_j(ctx):
    from .. import symdiff as sd
    from ..ratfun import Rat, Unsupported
    ctx.fact('GPy posterior: woodbury_inv = (L L^T)^-1 with L = woodbury_chol; RBF k(x, x\') = '
             's2 exp(-|x - x\'|^2 / (2 l^2))')
    gp, pred, grads, cache = _fast_fns(ctx)
    exp_, exg, exc = ctx.ex(pred), ctx.ex(grads), ctx.ex(cache)
    cached = {}
    for s in own_nodes(cache.node):
        if isinstance(s, ast.Assign) and isinstance(s.targets[0], ast.Attribute) and \
                s.targets[0].attr.startswith('_rbf_'):
            cached[s.targets[0].attr] = exc.term(s.value)
    alg = sd.Algebra()
    alg.deriv['x'] = Rat.const(1)
    X = alg.const('X')
    L = alg.const('L')

    def leaf(t):
        if t == ('param', pred.params[1]) or t == ('param', grads.params[1]):
            return Rat.sym('x')
        if t == pattern_term('self._gp.X'):
            return X
        if t[0] == 'attr' and t[1] in (('param', 'self'), ('name', 'self')) and \
                t[2].startswith('_rbf_'):
            name = t[2]
            if 'chol' in name:
                return L
            if 'woodbury_inv' in name:
                return Rat.const(1) / (L * L)
            return alg.const(name)      # cached quantities do not depend on the query point
        return None

    def fast_alt(t, marker):
        alts = [a for a in (_phi_alts_(t)) if contains(a, marker)]
        return alts
    rp = [r for r in returns(pred) if contains(exp_.term(r.value), 'self._rbf_woodbury')]
    rg = [r for r in returns(grads) if contains(exg.term(r.value), 'self._rbf_woodbury')]
    if len(rp) != 1 or len(rg) != 1:
        ctx.undecided('fast-path returns not identified ({} / {})'.format(len(rp), len(rg)))
    tp, tg = exp_.term(rp[0].value), exg.term(rg[0].value)
    if tp[0] != 'tuple' or tg[0] != 'tuple' or len(tp[1]) != 2 or len(tg[1]) != 2:
        ctx.undecided('fast-path returns are not (mean, var) / (grad_mean, grad_var) tuples')
    for i, label in ((0, 'mean'), (1, 'variance')):
        fa = fast_alt(tp[1][i], 'self._rbf_woodbury' if i == 0 else 'self._rbf_woodbury_inv')
        ga = fast_alt(tg[1][i], 'self._rbf_woodbury' if i == 0 else 'self._rbf_woodbury_chol')
        if not fa or not ga:
            ctx.undecided('fast-path {} formula not found'.format(label))
        try:
            dF = [alg.D(sd.convert(_scalarise(a), alg, leaf)) for a in fa]
            G = [sd.convert(_scalarise(a), alg, sd.opaque_leaf(leaf)) for a in ga]
        except Unsupported as e:
            ctx.undecided('fast-path {} outside the differentiable fragment: {}'.format(label, e))
        ok = all(any(alg.same(g, d) for d in dF) for g in G) and \
            all(any(alg.same(g, d) for g in G) for d in dF)
        ctx.check(ok, grads, 'fast-path gradient of the {} = derivative of the fast-path {}'
                  .format(label, label), 'd/dx in the scalar specialisation',
                  'the accelerated gradient of the {} is not the derivative of the accelerated '
                  '{} (already for input_dim = 1 and one evidence point)'.format(label, label),
                  fn=grads, node=rg[0])
    # the fast-path mean and variance are the GP equations of the RBF + bias kernel
    def cleaf(t):
        r = leaf(t)
        if r is not None:
            return r
        # float(<GPy parameter>[0]) -> a constant named after the parameter
        if t[0] == 'call' and t[1] in (('global', 'builtins.float'), ('name', 'float'),
                                       ('global', 'float')) and len(t[2]) == 1:
            a = t[2][0]
            while a[0] == 'sub':
                a = a[1]
            return alg.const(show(a))
        return None
    try:
        x2 = sd.convert(_scalarise(cached['_rbf_x2sum']), alg, cleaf)
        fac = sd.convert(_scalarise(cached['_rbf_factor']), alg, cleaf)
    except (KeyError, Unsupported) as e:
        ctx.undecided('cached RBF quantities not in the expected form: {}'.format(e))
    ctx.check(alg.same(x2, X * X), cache, 'cached squared norms of the evidence',
              'sum(X**2, 1)', 'the cached squared norm is not sum(X**2) over the input '
              'dimensions', fn=cache, node=cache.node)
    ell = [sy for sy in fac.symbols() if 'lengthscale' in sy]
    okf = len(ell) == 1 and alg.same(fac, Rat.const(-1) / (Rat.const(2) * Rat.sym(ell[0]) *
                                                       Rat.sym(ell[0])))
    ctx.check(okf, cache, 'cached exponent factor', '-1 / (2 lengthscale^2)',
              'the cached RBF factor is not -0.5 / lengthscale**2', fn=cache, node=cache.node)
    sig = alg.const('_rbf_var')
    bias = alg.const('_rbf_bias')
    noise = alg.const('_rbf_noisevar')
    w = alg.const('_rbf_woodbury')
    xs = Rat.sym('x')
    r2 = xs * xs + alg.const('_rbf_x2sum') - Rat.const(2) * xs * X
    k_rbf = sig * alg.exp(r2 * alg.const('_rbf_factor'))
    kx = k_rbf + bias
    want_mean = kx * w
    want_var = sig + bias - kx * kx / (L * L)
    try:
        got_mean = [sd.convert(_scalarise(a), alg, leaf)
                    for a in fast_alt(tp[1][0], 'self._rbf_woodbury')]
        got_var = [sd.convert(_scalarise(a), alg, leaf)
                   for a in fast_alt(tp[1][1], 'self._rbf_woodbury_inv')]
    except Unsupported as e:
        ctx.undecided('fast-path prediction outside the fragment: {}'.format(e))
    ctx.check(all(alg.same(g, want_mean) for g in got_mean), pred,
              'fast-path mean = k(x, X) . woodbury_vector',
              '(s2 exp(-|x-X|^2 / 2l^2) + bias) . alpha',
              'the accelerated mean is not (rbf + bias kernel row) times the Woodbury vector',
              fn=pred, node=rp[0])
    okv = all(alg.same(g, want_var) or alg.same(g, want_var + noise) for g in got_var) and \
        any(alg.same(g, want_var + noise) for g in got_var)
    ctx.check(okv, pred, 'fast-path variance = k(x,x) - k K^-1 k^T (+ noise)',
              's2 + bias - k Winv k^T, plus the noise variance unless noiseless',
              'the accelerated variance is not k(x,x) - k(x,X) Winv k(X,x) (+ noise)',
              fn=pred, node=rp[0])


def _phi_alts_(t):
    return list(t[1]) if t[0] == 'phi' else [t]


@obligation('C10-k', 'T12', 'a returned result buffer does not inherit the dtype of the caller\'s '
            'array (package sweep; shared with C08-l)', floor=1,
            necessary='the posterior gradient written into an integer buffer is truncated towards '
                      'zero: it is not the derivative for an integer-typed point')
def c10_k(ctx):
    from .base import inherited_dtype_obligation
    inherited_dtype_obligation(ctx)


_GP = 'elfi.methods.bo.gpy_regression:GPyRegression'
_C10_GUARDS = [
    (_GP + '.update', 'self._init_gp(_x, _y)', [('self._gp is None', True)],
     'the first evidence initialises the GP'),
    (_GP + '.update', 'assign:np.r_[self._gp.X, _x]', [('self._gp is None', False)],
     'later evidence is appended after the evidence the GP already holds'),
    (_GP + '.update', 'assign:np.r_[self._gp.Y, _y]', [('self._gp is None', False)],
     'later targets are appended after the targets the GP already holds'),
    (_GP + '.update', 'self.optimize()', [('optimize', True)],
     'hyper-parameters are optimised exactly when asked'),
]


@obligation('C10-l', 'T11 T3', 'adding evidence: the first batch initialises the GP, later batches '
            'are appended after the stored evidence, kernel / noise / mean function of the '
            'current GP are carried over, optimisation only on request (frozen table of {} rows '
            'plus the rebuild call)'.format(len(_C10_GUARDS)), floor=len(_C10_GUARDS) + 1,
            necessary='evidence appended on the wrong side of the test is lost (the GP is '
                      're-initialised with the new batch only); a rebuilt GP without the current '
                      'kernel forgets the optimised hyper-parameters')
def c10_l(ctx):
    from .base import check_guard_table, bind_args
    check_guard_table(ctx, _C10_GUARDS)
    gp = ctx.cls(_GP)
    up = ctx.own_method(gp, 'update')
    ex = ctx.ex(up)
    mk = gp.lookup('_make_gpy_instance')
    calls = ctx.calls(up, 'self._make_gpy_instance(*_)')
    ok = len(calls) == 1 and mk is not None
    if ok:
        b = bind_args(calls[0], mk)
        ok = b is not None and {'x', 'y', 'kernel', 'noise_var', 'mean_function'} <= set(b)
        if ok:
            t = dict((k, ex.term(v)) for (k, v) in b.items())
            ok = match(t['x'], pattern('np.r_[self._gp.X, _x]')) is not None and \
                match(t['y'], pattern('np.r_[self._gp.Y, _y]')) is not None and \
                match_any(t['kernel'], ('self._gp.kern.copy() if self._gp.kern else None',
                                        'self._gp.kern.copy()')) is not None and \
                match(t['noise_var'], pattern('self._gp.Gaussian_noise.variance[0]')) is not None \
                and match_any(t['mean_function'],
                              ('self._gp.mean_function.copy() if self._gp.mean_function else None',
                               'self._gp.mean_function.copy()')) is not None
        st = getattr(calls[0], '_parent', None)
        ok = ok and isinstance(st, ast.Assign) and \
            match(ex.term(st.targets[0]), pattern('self._gp')) is not None
    ctx.check(ok, up, 'GP rebuilt from (old + new evidence, current kernel, noise, mean function)',
              'self._gp = self._make_gpy_instance(r_[X, x], r_[Y, y], kernel=kern.copy(), '
              'noise_var=variance[0], mean_function=...)',
              'the GP is not rebuilt from the stored evidence followed by the new one together '
              'with the current kernel, noise variance and mean function', fn=up,
              node=calls[0] if calls else up.node)


@obligation('C10-m', 'T8', 'the prior term of the posterior gradient is the numerical derivative of '
            'the prior\'s own log density (shared with C08-f)', floor=1,
            necessary='gradient_logpdf of the posterior adds prior.gradient_logpdf: if that is not '
                      'the derivative of prior.logpdf the sum is not the derivative of the '
                      'posterior log density')
def c10_m(ctx):
    from .C08 import c08_f
    c08_f(ctx)


@obligation('C10-n', 'T7', 'the prior gradient of row i is computed from row i alone (shared with '
            'C08-k)', floor=3,
            necessary='a batch-level test that zeroes all rows when one row is outside the support '
                      'makes the posterior gradient of a point depend on the other points of '
                      'the batch')
def c10_n(ctx):
    from .C08 import c08_k
    c08_k(ctx)


# numpy 2.0 release notes ("NumPy 2.0 migration guide", NEP 52): names that no longer exist.
NUMPY2_REMOVED = ('linalg.linalg', 'NINF', 'PINF', 'Inf', 'Infinity', 'infty', 'NaN', 'NAN',
                  'float_', 'complex_', 'unicode_', 'string_', 'row_stack_', 'product',
                  'cumproduct', 'alltrue', 'sometrue', 'in1d_', 'asfarray', 'find_common_type',
                  'cast', 'source', 'lookfor', 'who', 'issubsctype', 'issubclass_', 'mat',
                  'maximum_sctype', 'obj2sctype', 'sctype2char', 'sctypes', 'issctype',
                  'set_string_function', 'deprecate', 'safe_eval', 'recfromcsv', 'recfromtxt',
                  'disp', 'byte_bounds', 'add_newdoc_ufunc', 'DataSource', 'longfloat',
                  'singlecomplex', 'cfloat', 'longcomplex', 'clongfloat', 'nbytes',
                  'geterrobj', 'seterrobj', 'tracemalloc_domain', 'compat', 'round_', 'msort',
                  'trapz_')


@obligation('C10-o', 'T12', 'the surrogate\'s code refers only to numpy names that exist in '
            'numpy >= 2 (library fact; the handler for numerical errors of the GP optimisation '
            'in particular)', floor=1,
            necessary='an `except np.linalg.linalg.LinAlgError` clause is evaluated when the '
                      'optimiser raises anything: AttributeError replaces the intended "stop '
                      'optimising, keep the evidence" handling and the inference aborts')
def c10_o(ctx):
    ctx.fact('numpy >= 2.0 removed: np.linalg.linalg, np.NINF, np.Inf, np.float_, ... (NumPy 2.0 '
             'migration guide); LinAlgError lives in np.linalg')
    mods = ('elfi.methods.bo.gpy_regression', 'elfi.methods.posteriors',
            'elfi.methods.inference.bolfi')
    n = 0
    for mn in mods:
        m = ctx.repo.module(mn)
        for f in m.all_functions:
            fnode = getattr(f, 'node', None)
            if fnode is None or isinstance(fnode, ast.Lambda):
                continue
            for x in own_nodes(fnode):
                if not isinstance(x, ast.Attribute):
                    continue
                # dotted chain rooted at np / numpy
                parts = []
                y = x
                while isinstance(y, ast.Attribute):
                    parts.append(y.attr)
                    y = y.value
                if not (isinstance(y, ast.Name) and y.id in ('np', 'numpy')):
                    continue
                if isinstance(getattr(x, '_parent', None), ast.Attribute):
                    continue      # only the full chain
                chain = '.'.join(reversed(parts))
                n += 1
                bad = [r for r in NUMPY2_REMOVED if chain == r or chain.startswith(r + '.')]
                if bad:
                    ctx.bad(f, 'numpy name exists', '`np.{}` does not exist in numpy >= 2 '
                            '(removed: np.{}); evaluating it raises AttributeError'.format(
                                chain, bad[0]), fn=f, node=x)
    if n < 20:
        ctx.undecided('expected numpy references in the surrogate modules, found {}'.format(n))
    if not any(i['obligation'] == 'C10-o' and i['verdict'] == 'violated'
               for i in ctx.instances):
        ctx.ok('elfi.methods.bo', 'numpy names exist', '{} numpy references in {} modules, none '
               'in the removed-names table'.format(n, len(mods)))


@obligation('C10-p', 'T11', 'the surrogate answers from the fitted Gaussian process exactly when one '
            'exists: the prior fallback (zero mean, unit variance, zero gradients, zero evidence) '
            'is returned only under `self._gp is None`', floor=5,
            necessary='with the test negated the posterior is computed from the constant fallback '
                      'although evidence was fitted (nothing raises): log density, gradient and '
                      'the evidence count no longer describe the surrogate')
def c10_p(ctx):
    cls = ctx.cls('elfi.methods.bo.gpy_regression:GPyRegression')
    none_t = pattern('self._gp is None')
    n = 0
    for name in ('predict', 'predictive_gradients', 'n_evidence'):
        m = cls.lookup(name)
        if m is None:
            raise AnchorMissing('GPyRegression.' + name)
        ex = ctx.ex(m)
        for r in returns(m):
            if r.value is None:
                continue
            t = ex.term(r.value)
            uses_gp = contains(t, 'self._gp') or contains(t, 'self._rbf_woodbury') or \
                contains(t, 'self._rbf_x2sum') or contains(t, 'self._gp.X')
            gs = [(g, pol) for (g, pol, _) in ctx.guards(m, r, all_dominating=True)]
            under_none = any(pol and match(g, none_t) is not None for (g, pol) in gs)
            under_some = any((not pol) and match(g, none_t) is not None for (g, pol) in gs)
            n += 1
            if uses_gp:
                ctx.check(under_some, m, 'an answer computed from the GP is given when a GP exists',
                          'after `if self._gp is None: return <fallback>`',
                          '`{}` reads the GP on a path on which `self._gp is None` was not '
                          'excluded'.format(src(r)[:60]), fn=m, node=r)
            elif under_none or not under_some:
                ctx.check(under_none, m, 'the fallback is returned only without a GP',
                          'if self._gp is None: return <constants>',
                          '`{}` returns a constant answer although a GP may exist'.format(
                              src(r)[:60]), fn=m, node=r)
            else:
                ctx.ok(m, 'answer under an existing GP', src(r)[:50], fn=m, node=r)
    if n < 5:
        ctx.undecided('expected at least 5 returns in predict / predictive_gradients / '
                      'n_evidence, found {}'.format(n))
