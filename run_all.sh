#!/bin/sh
# Run every registered check (quick tier by default) against /repo; evidence is rewritten.
# usage: ./run_all.sh [quick|thorough]
cd "$(dirname "$0")"
tier=${1:-quick}
rc=0
for p in $(/venv/bin/python -c "import json;print(' '.join(c['property_id'] for c in json.load(open('MANIFEST.json'))['checks']))"); do
  /venv/bin/python -m sa.check $p --tier $tier > /tmp/sa_$p.log 2>&1
  r=$?
  printf "%s exit=%s %s\n" $p $r "$(tail -1 /tmp/sa_$p.log | cut -c1-150)"
  [ $r -ne 0 ] && rc=1
done
exit $rc
