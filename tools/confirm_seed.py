#!/venv/bin/python
"""Confirm a seeded change and file it under /verif/seeded/<id>/.

  tools/confirm_seed.py <property> <seed-dir> <id> [--no-suite]

<seed-dir> holds patch.diff, demo.py, notes.md (written by an independent sub-agent).
Steps (all in a fresh scratch worktree of /repo under /tmp, removed afterwards):
  1. demo.py on the unmodified tree must exit 0
  2. `git apply patch.diff`, the package must import, demo.py must exit non-zero
  3. the test suite with the change: every test of the baseline pass list still passes
Nothing is ever applied to /repo itself.
"""

import json
import os
import shutil
import subprocess
import sys
import tempfile
import xml.etree.ElementTree as ET

PY = '/venv/bin/python'
BASE = '/tmp/baseline_pass_after_fixes2.txt'
if not os.path.exists(BASE):   # committed copy (188 tests passing on /repo 54558c4)
    BASE = os.path.join(os.path.dirname(os.path.abspath(__file__)), 'baseline_pass_after_fixes.txt')
KNOWN_FLAKY = {'tests.unit.test_utils::test_minimize_with_constraints'}


def run(cmd, cwd, env=None, timeout=3600):
    e = dict(os.environ)
    e['PYTHONPATH'] = cwd
    e['OMP_NUM_THREADS'] = '1'
    e['OPENBLAS_NUM_THREADS'] = '1'
    e['MKL_NUM_THREADS'] = '1'
    if env:
        e.update(env)
    p = subprocess.run(cmd, cwd=cwd, env=e, capture_output=True, text=True, timeout=timeout)
    return p.returncode, (p.stdout + p.stderr)[-3000:]


def main():
    prop, seed_dir, sid = sys.argv[1:4]
    suite = '--no-suite' not in sys.argv
    # default: the pinned suite (the 103 stable_pass tests of /root/.vp/BASELINE.json; the other
    # collected tests are deselected - several of them need > 10 min each on a loaded machine);
    # --full runs everything and compares with the 188-test post-fix baseline
    full = '--full' in sys.argv
    tdir = os.path.dirname(os.path.abspath(__file__))
    deselect = []
    base_file = BASE
    if not full:
        base_file = os.path.join(tdir, 'pinned_stable_pass.txt')
        for l in open(os.path.join(tdir, 'nonpinned_nodeids.txt')):
            l = l.strip()
            if l and not l.startswith('.py'):
                deselect += ['--deselect', l]
    here = os.path.dirname(os.path.dirname(os.path.abspath(__file__)))
    wt = tempfile.mkdtemp(prefix='seedwt_')
    os.rmdir(wt)
    subprocess.check_call(['git', '-C', '/repo', 'worktree', 'add', '-q', '--detach', wt, 'HEAD'])
    meta = {'property': prop, 'id': sid, 'ran': []}
    ok = True
    try:
        demo = os.path.join(seed_dir, 'demo.py')
        patch = os.path.join(seed_dir, 'patch.diff')
        shutil.copy(demo, os.path.join(wt, '_demo.py'))
        rc0, out0 = run([PY, '_demo.py'], wt, timeout=600)
        meta['ran'].append({'cmd': 'demo.py on unmodified tree', 'exit': rc0})
        if rc0 != 0:
            ok = False
            meta['problem'] = 'demo fails on the unmodified tree: ' + out0[-500:]
        ap = subprocess.run(['git', '-C', wt, 'apply', os.path.abspath(patch)],
                            capture_output=True, text=True)
        if ap.returncode != 0:
            ok = False
            meta['problem'] = 'patch does not apply to /repo HEAD: ' + ap.stderr[-500:]
        else:
            rci, outi = run([PY, '-c', 'import elfi'], wt)
            meta['ran'].append({'cmd': 'import elfi with the change', 'exit': rci})
            rc1, out1 = run([PY, '_demo.py'], wt, timeout=600)
            meta['ran'].append({'cmd': 'demo.py with the change', 'exit': rc1,
                                'tail': out1[-400:]})
            if rci != 0 or rc1 == 0:
                ok = False
                meta['problem'] = 'demo does not fail with the change (exit {})'.format(rc1)
            if ok and suite:
                junit = os.path.join(wt, '_junit.xml')
                rc2, out2 = run([PY, '-m', 'pytest', '-q', '-p', 'no:cacheprovider',
                                 '--timeout=900', '--continue-on-collection-errors', '-n', os.environ.get('SEED_JOBS', '6'),
                                 '--dist', 'loadfile', '--junitxml=' + junit] + deselect, wt,
                                timeout=5400)
                passed = set()
                if os.path.exists(junit):
                    for tc in ET.parse(junit).iter('testcase'):
                        name = tc.get('classname') + '::' + tc.get('name')
                        if not [c for c in tc if c.tag in ('failure', 'error', 'skipped')]:
                            passed.add(name)
                base = set(open(base_file).read().split('\n')) - {''}
                missing = sorted(base - passed - KNOWN_FLAKY)
                meta['ran'].append({'cmd': 'pytest with the change ({})'.format('full suite, 188-test post-fix baseline' if full else 'pinned suite: the 103 stable_pass tests, other tests deselected'), 'passed': len(passed),
                                    'baseline': len(base), 'baseline_tests_missing': missing})
                if missing:
                    # re-run the missing ones alone (load-related flakiness)
                    ids = []
                    for m in missing:
                        mod, _, name = m.partition('::')
                        parts = mod.split('.')
                        # class-based ids: tests.unit.test_bo.Test_MaxVar::test_x
                        if parts[-1][0].isupper():
                            ids.append('/'.join(parts[:-1]) + '.py::' + parts[-1] + '::' + name)
                        else:
                            ids.append('/'.join(parts) + '.py::' + name)
                    rc3, out3 = run([PY, '-m', 'pytest', '-q', '-p', 'no:cacheprovider',
                                     '--timeout=900'] + ids, wt, timeout=3600)
                    meta['ran'].append({'cmd': 'pytest (alone) ' + ' '.join(ids), 'exit': rc3,
                                        'tail': out3[-300:]})
                    if rc3 != 0:
                        ok = False
                        meta['problem'] = 'baseline tests fail with the change: {}'.format(missing)
    finally:
        subprocess.call(['git', '-C', '/repo', 'worktree', 'remove', '--force', wt])
        shutil.rmtree(wt, ignore_errors=True)
    meta['confirmed'] = ok
    notes = os.path.join(seed_dir, 'notes.md')
    dst = os.path.join(here, 'seeded', sid)
    if ok:
        os.makedirs(dst, exist_ok=True)
        shutil.copy(patch, os.path.join(dst, 'patch.diff'))
        shutil.copy(demo, os.path.join(dst, 'demo.py'))
        if os.path.exists(notes):
            shutil.copy(notes, os.path.join(dst, 'notes.md'))
            txt = open(notes).read()
            meta['needs_to_manifest'] = txt[:1500]
        with open(os.path.join(dst, 'meta.json'), 'w') as f:
            json.dump(meta, f, indent=1)
    print(json.dumps({k: v for k, v in meta.items() if k != 'needs_to_manifest'}, indent=1))
    return 0 if ok else 1


if __name__ == '__main__':
    sys.exit(main())
