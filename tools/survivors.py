#!/venv/bin/python
"""Developer loop: run the thorough self-test for some properties and list failures/survivors."""
import sys, os
sys.path.insert(0, os.path.dirname(os.path.dirname(os.path.abspath(__file__))))
from sa.check import run_property
from sa import selftest
props = sys.argv[1:] or ['C%02d' % i for i in range(1, 21)]
for p in props:
    res = run_property(p)
    st = selftest.run(p, baseline=res)
    print('== {} kill {}/{} ({}), neutral {}/{}, seeded {}/{} (skipped {}), {:.0f}s'.format(
        p, st['fired'], st['must_fire'], st['kill_ratio'], st['silent'], st['neutral'],
        st['seeded_detected'], st['seeded'], st['seeded_skipped'], st['wall_s']))
    for f in st['failures']:
        print('   FAIL', f[:400])
    for s in st['survivors']:
        print('   SURV', s)
    sys.stdout.flush()
