#!/venv/bin/python
"""Fill the bookkeeping fields of seeded/<id>/meta.json: detected_by is taken from a live run of
the property's check on the patched source (in-memory overlay, nothing is written to /repo)."""
import json, os, re, subprocess, sys
sys.path.insert(0, os.path.dirname(os.path.dirname(os.path.abspath(__file__))))
ROOT = os.path.dirname(os.path.dirname(os.path.abspath(__file__)))
HIST = json.load(open(os.path.join(ROOT, 'tools', 'seed_history.json')))
only = sys.argv[1:]
for sid in sorted(os.listdir(os.path.join(ROOT, 'seeded'))):
    if only and sid not in only:
        continue
    d = os.path.join(ROOT, 'seeded', sid)
    mp = os.path.join(d, 'meta.json')
    meta = json.load(open(mp))
    prop = sid.split('-')[0]
    out = subprocess.run(['/venv/bin/python', '-m', 'sa.trypatch', '--patch',
                          os.path.join(d, 'patch.diff'), prop], cwd=ROOT, capture_output=True,
                         text=True).stdout
    obs = sorted(set(re.findall(r'VIOLATED (C\d\d-[a-z])', out)))
    first = out.splitlines()[0].split()[-1] if out else '?'
    rnd = {'1': 1, '2': 1, '3': 2, '4': 2, '5': 3, '6': 3, '7': 4, '8': 5}[sid.split('-')[1]]
    if HIST.get(sid, '').startswith('fifth round'):
        rnd = 5
    meta.setdefault('breaks_property', prop)
    meta['detected_by'] = obs
    meta['verdict_now'] = first
    meta['round'] = rnd
    if sid in HIST:
        meta['history'] = HIST[sid]
    meta.setdefault('history', '')
    meta['how_checked'] = ('python -m sa.trypatch --patch seeded/{0}/patch.diff {1}; the thorough '
                           'tier re-runs it on every run'.format(sid, prop))
    json.dump(meta, open(mp, 'w'), indent=1)
    print(sid, first, obs)
