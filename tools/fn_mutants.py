#!/venv/bin/python
"""Developer loop: mutate every statement of the functions a property examined (not only the
anchored nodes) and list the mutants no obligation notices, grouped by function.

  tools/fn_mutants.py C05 [--max 400] [--only REGEX-on-qualified-name]

Many survivors are equivalent or irrelevant (logging, messages); the list is for reading, it is
not a gate.  Nothing is written to /repo: variants are in-memory overlays.
"""
import ast
import os
import sys
import multiprocessing as mp

sys.path.insert(0, os.path.dirname(os.path.dirname(os.path.abspath(__file__))))
from sa.check import run_property   # noqa: E402
from sa import REPO_ROOT            # noqa: E402

FLIP = {ast.Lt: ast.GtE, ast.GtE: ast.Lt, ast.Gt: ast.LtE, ast.LtE: ast.Gt, ast.Eq: ast.NotEq,
        ast.NotEq: ast.Eq, ast.Is: ast.IsNot, ast.IsNot: ast.Is, ast.In: ast.NotIn,
        ast.NotIn: ast.In}
EDGE = {ast.Lt: ast.LtE, ast.LtE: ast.Lt, ast.Gt: ast.GtE, ast.GtE: ast.Gt}


def _is_logging(s):
    if isinstance(s, ast.Expr) and isinstance(s.value, ast.Call):
        f = s.value.func
        while isinstance(f, ast.Attribute):
            if f.attr in ('debug', 'info', 'warning', 'warn', 'error'):
                return True
            f = f.value
        if isinstance(f, ast.Name) and f.id in ('print',):
            return True
    if isinstance(s, ast.Expr) and isinstance(s.value, ast.Constant):
        return True
    return False


def variants(text, relpath, spans):
    """[(desc, new_text)] for statements inside the line spans [(lo, hi, qname)]."""
    out = []
    base = ast.parse(text)
    sites = []
    for n in ast.walk(base):
        ln = getattr(n, 'lineno', None)
        if ln is None:
            continue
        q = None
        for (lo, hi, qn) in spans:
            if lo <= ln <= hi:
                q = qn
        if q is None:
            continue
        if isinstance(n, (ast.Assign, ast.AugAssign, ast.Expr, ast.Return)) and not _is_logging(n):
            if isinstance(n, ast.Return) and n.value is None:
                continue
            sites.append(('del', n.lineno, n.col_offset, type(n).__name__, q))
        if isinstance(n, ast.Compare) and len(n.ops) == 1 and type(n.ops[0]) in FLIP:
            sites.append(('flip', n.lineno, n.col_offset, 'Compare', q))
            if type(n.ops[0]) in EDGE:
                sites.append(('edge', n.lineno, n.col_offset, 'Compare', q))
        if isinstance(n, (ast.If, ast.While, ast.IfExp)):
            sites.append(('neg', n.lineno, n.col_offset, type(n).__name__, q))
        if isinstance(n, ast.BinOp) and isinstance(n.op, (ast.Add, ast.Sub)):
            sites.append(('pm', n.lineno, n.col_offset, 'BinOp', q))
        if isinstance(n, ast.BoolOp):
            sites.append(('andor', n.lineno, n.col_offset, 'BoolOp', q))
        if isinstance(n, ast.Call) and len(n.args) >= 2:
            sites.append(('swapargs', n.lineno, n.col_offset, 'Call', q))
    for (op, ln, col, kind, q) in sites:
        t = ast.parse(text)
        target = None
        for n in ast.walk(t):
            if getattr(n, 'lineno', None) == ln and getattr(n, 'col_offset', None) == col and \
                    type(n).__name__ == kind:
                target = n
                break
        if target is None:
            continue
        try:
            if op == 'del':
                # replace by pass
                for p in ast.walk(t):
                    for fld in ('body', 'orelse', 'finalbody'):
                        v = getattr(p, fld, None)
                        if isinstance(v, list) and target in v:
                            v[v.index(target)] = ast.Pass()
            elif op == 'flip':
                target.ops = [FLIP[type(target.ops[0])]()]
            elif op == 'edge':
                target.ops = [EDGE[type(target.ops[0])]()]
            elif op == 'neg':
                target.test = ast.UnaryOp(op=ast.Not(), operand=target.test)
            elif op == 'pm':
                target.op = ast.Sub() if isinstance(target.op, ast.Add) else ast.Add()
            elif op == 'andor':
                target.op = ast.Or() if isinstance(target.op, ast.And) else ast.And()
            elif op == 'swapargs':
                target.args[0], target.args[1] = target.args[1], target.args[0]
            ast.fix_missing_locations(t)
            new = ast.unparse(t) + '\n'
            compile(new, relpath, 'exec')
        except Exception:
            continue
        out.append(('{}:{} {} {} [{}]'.format(relpath, ln, kind, op, q), new))
    return out


def _verdict(args):
    prop, relpath, new = args
    try:
        res = run_property(prop, overlay={relpath: new})
    except Exception as e:
        return 'error'
    viol = sorted((i['obligation'], i['construct'], i['role']) for i in res['ctx'].instances
                  if i['verdict'] == 'violated')
    errs = sorted(e['obligation'] for e in res['errors'])
    return (tuple(viol), tuple(errs))


def main():
    prop = sys.argv[1]
    mx = int(sys.argv[sys.argv.index('--max') + 1]) if '--max' in sys.argv else 600
    res = run_property(prop)
    base = _verdict((prop, '__none__', ''))
    ctx = res['ctx']
    import re as _re
    only = _re.compile(sys.argv[sys.argv.index('--only') + 1]) if '--only' in sys.argv else None
    by_file = {}
    for f in ctx.functions_touched.values():
        if only is not None and not only.search(f.qname):
            continue
        node = getattr(f, 'node', None)
        if node is None or isinstance(node, ast.Lambda):
            continue
        rel = f.module.relpath
        by_file.setdefault(rel, []).append((node.lineno, node.end_lineno, f.qname.split(':')[-1]))
    jobs = []
    for rel, spans in by_file.items():
        text = open(os.path.join(REPO_ROOT, rel)).read()
        for (desc, new) in variants(text, rel, spans):
            jobs.append((desc, (prop, rel, new)))
    jobs = jobs[:mx] if len(jobs) > mx else jobs
    with mp.Pool(14) as pool:
        verdicts = pool.map(_verdict, [j[1] for j in jobs])
    surv = [j[0] for j, v in zip(jobs, verdicts) if v == base]
    print('== {}: {} mutants in {} functions, {} survive ({:.0%} noticed)'.format(
        prop, len(jobs), len(ctx.functions_touched), len(surv),
        1 - len(surv) / max(1, len(jobs))))
    for s in surv:
        print('   SURV', s)


if __name__ == '__main__':
    main()
