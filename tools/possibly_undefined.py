#!/venv/bin/python
"""Cross-reference (run once, triaged by hand; not a registered check): local names that may be
read on a path from the function entry on which they were never bound.  The CFG is the
analyser's own; correlated conditions are not understood, so every report needs reading."""
import ast, os, sys
sys.path.insert(0, os.path.dirname(os.path.dirname(os.path.abspath(__file__))))
from sa.check import run_property
from sa.cfg import cfg_of
from sa.model import own_nodes

res = run_property('C13')
ctx = res['ctx']
n = 0
for m in ctx.repo.modules.values():
    if not m.name.startswith('elfi') or m.name.startswith('elfi.examples') or \
            m.name.startswith('elfi.visualization'):
        continue
    for f in m.all_functions:
        node = getattr(f, 'node', None)
        if node is None or isinstance(node, ast.Lambda):
            continue
        params = set(a.arg for a in node.args.posonlyargs + node.args.args + node.args.kwonlyargs)
        if node.args.vararg:
            params.add(node.args.vararg.arg)
        if node.args.kwarg:
            params.add(node.args.kwarg.arg)
        binds = {}
        for x in own_nodes(node):
            if isinstance(x, ast.Name) and isinstance(x.ctx, ast.Store):
                binds.setdefault(x.id, []).append(x)
            if isinstance(x, ast.ExceptHandler) and x.name:
                binds.setdefault(x.name, []).append(x)
            if isinstance(x, (ast.Import, ast.ImportFrom)):
                for a in x.names:
                    binds.setdefault((a.asname or a.name).split('.')[0], []).append(x)
        glob = set()
        for x in own_nodes(node):
            if isinstance(x, (ast.Global, ast.Nonlocal)):
                glob |= set(x.names)
        try:
            cfg = cfg_of(f)
        except Exception:
            continue
        for name, bs in binds.items():
            if name in params or name in glob:
                continue
            # skip names bound only inside comprehensions
            def in_comp(x):
                p = getattr(x, '_parent', None)
                while p is not None and p is not node:
                    if isinstance(p, (ast.ListComp, ast.SetComp, ast.DictComp, ast.GeneratorExp)):
                        return True
                    p = getattr(p, '_parent', None)
                return False
            real = [b for b in bs if not in_comp(b)]
            if not real:
                continue
            bnodes = []
            for b in real:
                try:
                    bn = cfg.node_of(b)
                except Exception:
                    bn = None
                if bn is not None:
                    bnodes.append(bn)
            for x in own_nodes(node):
                if isinstance(x, ast.Name) and isinstance(x.ctx, ast.Load) and x.id == name and \
                        not in_comp(x):
                    un = cfg.node_of(x)
                    if un is None or un in bnodes and not isinstance(
                            getattr(un, 'ast', None), (ast.For, ast.While)):
                        # same statement binds and reads (x = f(x)) -> reads the old value
                        others = [b for b in bnodes if b is not un]
                        if un is None:
                            continue
                        if cfg.exists_path(cfg.entry, un, avoiding=others) and un in bnodes:
                            pass
                        else:
                            continue
                    if cfg.exists_path(cfg.entry, un, avoiding=[b for b in bnodes if b is not un]):
                        n += 1
                        print('{}:{} {}  `{}` may be unbound'.format(
                            m.relpath, x.lineno, f.qname.split(':')[-1], name))
                        break
print(n, 'reports')
