#!/venv/bin/python
"""Developer loop: run only the neutral rewrites for some properties."""
import sys, os
sys.path.insert(0, os.path.dirname(os.path.dirname(os.path.abspath(__file__))))
from sa.check import run_property
from sa import selftest
props = sys.argv[1:] or ['C%02d' % i for i in range(1, 21)]
for p in props:
    res = run_property(p)
    st = selftest.run(p, baseline=res, max_mutants=0)
    print('== {} neutral {}/{}  {:.0f}s'.format(p, st['silent'], st['neutral'], st['wall_s']))
    for f in st['failures']:
        print('   FAIL', f[:600])
    sys.stdout.flush()
