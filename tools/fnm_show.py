#!/venv/bin/python
"""Print fn_mutants survivors with their source line: tools/fnm_show.py <report> [regex on function]"""
import re, sys
lines = {}
def src(f, l):
    if f not in lines:
        lines[f] = open('/repo/' + f).read().splitlines()
    return lines[f][l - 1].strip()
pat = re.compile(sys.argv[2]) if len(sys.argv) > 2 else None
seen = set()
for ln in open(sys.argv[1]):
    m = re.match(r'\s+SURV (\S+):(\d+) (\w+) (\w+) \[(.*)\]', ln)
    if not m:
        if ln.startswith('=='):
            print(ln.strip())
        continue
    f, l, kind, op, q = m.groups()
    l = int(l)
    if pat and not pat.search(q):
        continue
    if (f, l, op) in seen:
        continue
    seen.add((f, l, op))
    print('%s:%d %-8s %-32s | %s' % (f.split('/')[-1], l, op, q[:32], src(f, l)[:95]))
